# Per-property configuration of the driver (./check). One entry per claimed property.
# Keys: level, race (bool), phases (optional list), crash_is_violation, race_deciding_files,
# race_func_prefixes, min_distinct, exhaustive, assumptions, technique, level_text, level_note, design_ref.

CHECKS = {
    "C01": {
        "level": "exploration",
        "technique": "runtime monitoring: reference registration model + in-order trace matching over adaptive lock-step sessions (virtual time)",
        "level_text": "Thousands of generated sessions with all flag combinations, all topic-ID kinds and prior registration/subscription histories; the oracle rebuilds from the wire what every topic ID denotes and matches client PUBLISHes with broker PUBLISHes one-to-one, field by field. Overlapping workloads: pipelined client packets with late broker answers and broker packet identifiers that coincide with the client's message IDs, all accept/refuse combinations of 2-3 overlapping SUBSCRIBEs (+REGISTER) of one name followed by a probe PUBLISH on the set-aside ID, and the broker-burst workload.",
        "level_note": "IDs allocated but not yet confirmed to the client are don't-care; lock-step delivery",
        "design_ref": "3/C01",
    },
    "C02": {
        "level": "exploration",
        "technique": "runtime monitoring: client-knowledge model over the wire trace; unique payload tags identify each broker message",
        "level_text": "Broker publishes (QoS 0-2, short/predefined/registered/new names, four predefined-map shapes with client/'*' overlaps) are injected into generated sessions; the monitor resolves the delivered (type, ID) with the knowledge a client has at that moment and requires exactly-once delivery with unchanged flags. The broker-burst workload sends 1-4 broker PUBLISHes back to back (three bursts, new / repeated / short / predefined / registered names, broker packet identifiers starting at 30000, 65533 or 1) to a client that acknowledges REGISTER/PUBLISH 0 / 1 ms / 500 ms late, in a third of the cases sends every REGACK twice, and in a quarter of the cases receives every broker packet in two TCP segments 150 ms apart.",
        "level_note": "scripted client acknowledges everything promptly (loss is C16's subject)",
        "design_ref": "3/C02",
    },
    "C03": {
        "level": "exploration",
        "technique": "runtime monitoring: per-type bijection between the two recorded links with field comparison",
        "level_text": "Generated sessions with every filter kind x requested QoS x broker SUBACK code (0,1,2,0x80; granted != requested); per packet type the client-side and broker-side sequences must correspond one-to-one with equal IDs/filters/QoS and the SUBACK mapping. The overlap workload lets the broker's packet identifiers run through the client's message IDs (2, 3, 5...), and short-name SUBSCRIBE/UNSUBSCRIBE use a 2-byte UTF-8 name besides ASCII ones.",
        "level_note": "broker message IDs start at 30000 so that they do not coincide with the client's (coinciding IDs are C06's subject)",
        "design_ref": "3/C03",
    },
    "C04": {
        "level": "exploration",
        "technique": "runtime monitoring: invariant over everything handed out on the wire (id -> name function, range, predefined collisions, sticky exhaustion), incl. full 65534-ID exhaustion runs",
        "level_text": "The ID space is actually exhausted (about 65.5k SUBSCRIBEs per run, several predefined layouts incl. IDs at 1 and 65534) and 60 further registrations of new and old names follow; plus thousands of ordinary generated sessions. The monitor keeps the id -> name relation of the whole session. The broker-burst workload (several gateway REGISTERs in flight, duplicated REGACKs, final client PUBLISH on every handed-out ID) is part of the workload set, and a client PUBLISH with a handed-out ID that is forwarded under another name counts as 'the ID denotes a different name now'.",
        "level_note": "REGISTER-driven exhaustion is not used (O(n) duplicate scan per REGISTER); allocation path is the same newTopicID",
        "design_ref": "3/C04",
    },
    "C05": {
        "level": "exploration",
        "exhaustive": True,
        "technique": "runtime monitoring: reference-model oracle over an exhaustively enumerated bounded configuration space + random larger maps",
        "level_text": "All 262144 predefined-topic maps over 3 clients x 3 IDs x 3 names are enumerated and every lookup is compared with a 10-line reference (client entry, else '*' entry; ID lookup must be invertible); exhaustive for that bounded space, sampled beyond it. Random larger maps include the boundary IDs 255, 256, 0x7FFF, 0x8000, 0xFFFD, 0xFFFE.",
        "level_note": "the bounded space contains every overlap/shadowing pattern between one client entry and one '*' entry; larger maps are sampled only",
        "design_ref": "3/C05",
    },
    "C23": {
        "level": "exploration",
        "technique": "runtime monitoring: universal wire monitor (independent spec-table parser) on every datagram sent in the union of the gateway workloads",
        "level_text": "All datagrams the gateway emits in the connect, traffic, hostile, sleep and big-payload workloads (hundreds of thousands per run) are parsed by the independent codec: decodable, direction-valid type, Length == size, size <= 8192.",
        "level_note": "the client library's datagrams are judged in the client+gateway workload (API programs of C26); DTLS framing is out of scope",
        "design_ref": "3/C23",
    },
    "C24": {
        "level": "exploration",
        "technique": "runtime monitoring: universal wire monitor (independent MQTT 3.1.1 parser + per-packet validator) on the gateway->broker stream of hostile and ordinary workloads",
        "level_text": "Every MQTT packet written to the broker in the hostile-traffic, traffic, connect and sleep workloads is parsed and validated against the per-packet rules of MQTT 3.1.1 named in the property (and the remaining per-packet well-formedness rules). The slow-broker workload adds a broker that stops reading for 50-450 ms and resumes while 10-6000 byte payloads are forwarded over a link with partial writes (a write deadline expires with a part of the packet already taken).",
        "level_note": "UTF-8 well-formedness and wildcard placement inside non-empty filters are not judged; sequence-level rules exempted by the property",
        "design_ref": "3/C24",
    },
    "C29": {
        "level": "exploration",
        "crash_is_violation": True,
        "phases": [
            {"name": "lin", "race": False, "test": "TestC29"},
            {"name": "race", "race": True, "test": "TestC29"},
        ],
        "race_deciding_files": True,
        "race_func_prefixes": ["util.(*IDSequence)", "transactions.(*TransactionStore)", "util.(*ClientState)", "util.NewIDSequence", "transactions.NewTransactionStore"],
        "technique": "runtime monitoring: porcupine linearizability checking of recorded concurrent histories + Go race detector on the same stress; sequential model conformance for small ranges",
        "level_text": "Thousands of short concurrent histories per run (few keys, 2-8 goroutines) recorded at the call boundary and checked for linearizability against a sequential counter/map/register model; the same stress is repeated unrecorded under -race, where any report (or 'concurrent map' fatal error) located in the three anchored types decides. Small (min,max) ranges are checked sequentially for 3 full cycles (exhaustive for 0<=min<=max<=6).",
        "level_note": "interleavings are those the Go scheduler produced on 16 cores in this run (counter histories_with_overlap), not all; porcupine timeouts are inconclusive",
        "design_ref": "3/C29",
    },
    "C07": {
        "level": "exploration",
        "technique": "runtime monitoring: trace oracle over lock-step packet sequences (exhaustive up to length 3) against the real session handler in virtual time",
        "level_text": "Every sequence of up to 3 pre-connect client packets over a 24-symbol alphabet, with authentication on and off (29k sessions), plus thousands of perturbed connect flows, is played to the real gateway handler; a linear monitor over the recorded wire trace checks that nothing is acknowledged or relayed before the broker accepted a CONNECT.",
        "level_note": "exhaustive only for length <= 3 over the chosen alphabet; lock-step delivery (races between the two receive loops are exercised by C25/C11)",
        "design_ref": "3/C07",
    },
    "C08": {
        "level": "exploration",
        "technique": "runtime monitoring: per-connect-exchange trace oracle over enumerated and perturbed CONNECT/AUTH/WILL* orderings",
        "level_text": "Same sequence space as C07 (all orderings/omissions/repeats up to length 3, perturbed longer flows) x auth on/off x four gateway credential settings; the monitor compares the credentials of every MQTT CONNECT with the AUTH packets of the same exchange / the configured ones.",
        "level_note": "credentials are compared byte-wise by an independent MQTT parser; the plumbing of --auth/--mqtt-user/--mqtt-password through main and ListenAndServe is exercised by 12 runs of the built bisquitt binary on loopback (same oracle)",
        "design_ref": "3/C08",
    },
    "C09": {
        "level": "exploration",
        "technique": "runtime monitoring: per-connect-exchange protocol-order oracle over enumerated and perturbed sequences",
        "level_text": "Same sequence space as C07/C08 with will/no-will CONNECTs, empty/QoS-3 will topics, keep-alive 0 and 65535 and broker CONNACK codes 0-5 and 9; the monitor checks request/response order of the will dialogue, the will fields and count of MQTT CONNECTs and the CONNACK code mapping.",
        "level_note": "duplicate WILLTOPICREQs caused by repeated AUTHs are not judged (the property does not forbid them)",
        "design_ref": "3/C09",
    },
    "C10": {
        "level": "fault_enumeration",
        "exhaustive": True,
        "technique": "runtime monitoring in virtual time: every silence point of every connect flow enumerated; deadline oracle on the recorded trace",
        "level_text": "The fault is 'the client (or the broker) falls silent'; it is injected at every step of the five connect flows with every combination of inter-step gaps {0, 1 s, 4.9 s}, plus repeated CONNECTs and stray packets (a few hundred cases, all run). The oracle is the virtual timestamp of the handler's return and of the gateway closing the broker link against 5 s + one 100 ms poll after the last CONNECT. Mid-exchange packets include a CONNECT that the gateway refuses (keep-alive 0) and one with a reserved protocol ID. Complete flows are also run against a broker that does not read on an unbuffered link, so that the gateway's write of the MQTT CONNECT blocks.",
        "level_note": "virtual time (synctest) stands for real time; a peer that never sends CONNECT at all is outside this property (see C34)",
        "design_ref": "3/C10",
    },
    "C11": {
        "level": "exploration",
        "phases": [
            {"name": "plain", "race": False, "test": "TestC11"},
            {"name": "race", "race": True, "test": "TestC11", "tiers": ["thorough"]},
        ],
        "technique": "runtime monitoring: sleep-window oracle over the wire trace (silence inside windows, exactly-once in-order delivery on wake-up), lock-step and same-instant racy injections; race detector as diagnostic in the thorough tier",
        "level_text": "Thousands of generated multi-cycle sleep histories with broker publishes inside the windows and at the very instant of the sleep request / the waking PINGREQ (the gateway's two receive loops race; repeated many times per run). Exchanges the client started before falling asleep are answered late by the broker model, inside the window. The monitor reconstructs the sleep windows from the wire and checks silence, exactly-once delivery and order, and that late acknowledgements are delivered at wake-up.",
        "level_note": "orders of the racing receive loops are those the scheduler produced; race-detector reports are listed, not deciding",
        "design_ref": "3/C11",
    },
    "C12": {
        "level": "exploration",
        "technique": "runtime monitoring in virtual time: gap monitor on the gateway->broker link over generated timed histories in which the client meets its obligations by construction",
        "level_text": "About 1500 (quick) timed histories of up to 3 virtual hours with keep-alive 1 s - 600 s, activity placed at 10-100% of each obligation, sleeps shorter and longer than the keep-alive (up to 65535 s) with several wake-ups, new sleep requests and returns to active; the monitor measures every silence on the broker link against 1.5 x keep-alive.",
        "level_note": "virtual time (synctest); the broker model does not disconnect here so that every gap of a history is measured",
        "design_ref": "3/C12",
    },
    "C13": {
        "level": "fault_enumeration",
        "exhaustive": True,
        "crash_is_violation": True,
        "technique": "runtime monitoring: termination causes injected at every step of base histories (virtual time); deadline + wire-state oracle; goroutine-leak inspection of the bubble's goroutine dump at quiescence",
        "level_text": "Each of 8 termination causes is injected at every step index of 7 base histories (about 370 cases, all run; thorough repeats them 4x for scheduler variety) and the session is then given 130 virtual seconds. The oracle checks the handler's return time against one poll interval, the closing of the broker link, the DISCONNECT notice against a client-state machine rebuilt from the wire, and - from the runtime's goroutine dump filtered by synctest bubble - that nothing of the session is left. The real dial-failure path and whole-gateway shutdown through ListenAndServe (active and sleeping UDP peers) are run on loopback; a broker that stops reading (bounded link) is one of the base histories. Added later: a ninth cause (broker connection reset instead of EOF), and send-fault histories - the next / every later gateway->client datagram write, or gateway->broker write, fails from every step index on, followed 2 s later by shutdown, broker close or client DISCONNECT: the session must still end with the broker connection closed. A session frozen on a leaked mutex is reported by the goroutine-state deadlock monitor (rt), with the stacks as witness.",
        "level_note": "goroutine identity relies on the 'synctest bubble N' tag in runtime.Stack output; a leak makes the bubble unfinishable, so the child process exits after journaling it and the driver resumes",
        "design_ref": "3/C13",
    },
    "C14": {
        "level": "exploration",
        "technique": "runtime monitoring: universal trace monitor (MQTT DISCONNECT must be credited by a plain client DISCONNECT) over termination/sleep/traffic workloads",
        "level_text": "Every termination cause (gateway shutdown, client DISCONNECT, broker close, broker garbage, undecodable datagram, unhandled packet) is applied at every step of seven base histories (connect with/without will and auth, publishes in flight both ways, pending registration, asleep with/without pinger, awake, half-open connect), plus sleep cycles and generated traffic; the monitor counts MQTT DISCONNECTs against plain client DISCONNECTs. Every eighth case of the sleep and termination workloads has a client that writes the 3-byte Length form (all datagrams / all but CONNECT / DISCONNECT only).",
        "level_note": "lock-step delivery; racy terminations are exercised by C13's repeated runs",
        "design_ref": "3/C14",
    },
    "C18": {
        "level": "exploration",
        "crash_is_violation": True,
        "phases": [
            {"name": "plain", "race": False, "test": "TestC18"},
            {"name": "race", "race": True, "test": "TestC18"},
        ],
        "race_deciding_files": True,
        "race_func_prefixes": ["transactions.", "client.(*sleepTransaction)", "client.newSleepTransaction"],
        "technique": "runtime monitoring: invariant probes (completion-callback counter, Err stability, callback-after-Done) over enumerated and colliding operation histories + Go race detector + crash watch",
        "level_text": "All operation sequences up to length 4 over the six transaction operations are run on five transaction variants in virtual time, plus same-instant and real-time collisions of completion calls with timers, and about 2000 histories of the client's sleep transaction through the real Client.Sleep (replies exactly at / just before timer instants, RetryDelay down to 0 in real time); probes assert at-most-once completion and no action after completion. The same workload runs under -race, where a report inside package transactions or the client's sleep transaction (or a nil dereference, seen as a crash) decides. Slow-interface histories (real time): the DISCONNECT retransmission of the sleep transaction takes 1.3 s to leave the interface (memnet PreWrite hook, no lock held) while the reply, a 1 s sleep and the wake-up finish the transaction; a retransmission delivered after Sleep() returned is a violation. Half of the real-time collision histories use a completion callback that takes 500 us and a quarter start every goroutine with Success() (simultaneous acknowledgements).",
        "level_note": "collision interleavings are sampled by the scheduler (16 cores, repetitions), not enumerated; race detector only sees races that occur in the run",
        "design_ref": "3/C18",
    },
    "C19": {
        "level": "exploration",
        "technique": "runtime monitoring in virtual time (testing/synctest): exact timestamped callback/Done log compared with a reference schedule simulation",
        "level_text": "A few thousand retry/timeout schedules (all RetryCount 0-5 x four delays x 0-3 progress events x three endings) run on the real transactions with a fake clock; the oracle is the exact virtual-time event list, so off-by-one retry counts, wrong delays and missing resets are all visible. Retry callbacks also return ErrRetryPostponed on a subset/prefix of their invocations (not counted against the budget) or a custom error (fails the transaction at that tick).",
        "level_note": "events are never placed on a timer tick (ties are C18's subject); the fake clock is Go's synctest",
        "design_ref": "3/C19",
    },
    "C20": {
        "level": "exploration",
        "crash_is_violation": True,
        "technique": "runtime monitoring: recover()-guarded decoder driven by exhaustive (len<=3), structural and mutation-generated datagrams",
        "level_text": "Every byte string of length 0-3 is decoded (exhaustive), plus ~0.5M structural/mutated longer datagrams per quick run; a panic anywhere in ReadPacket/Pack is caught by a same-goroutine recover and reported with the input. Exhaustive only for the short lengths; beyond that coverage is by generation.",
        "level_note": "trusts Go's recover to observe every panic of the synchronous decoder; runtime fatal errors would kill the child process and are reported as crashes by the driver",
        "design_ref": "3/C20",
    },
    "C21": {
        "level": "exploration",
        "technique": "runtime monitoring: round-trip oracle + independent spec-table parser over generated packets; exhaustive for the short-topic bijection",
        "level_text": "All 65536 short-topic IDs (exhaustive) and, per quick run, ~200k packets of all 28 types built through the public constructors with boundary sizes around the 255/256 header switch and up to MaxPayloadLength; each encoding is checked by an independent parser (length field, header form, field offsets) and decoded back.",
        "level_note": "field equality is checked through the packets' exported fields/getters; trusts snref",
        "design_ref": "3/C21",
    },
    "C22": {
        "level": "exploration",
        "technique": "runtime monitoring: differential oracle (independent spec-table parser snref) on every datagram the decoder accepts",
        "level_text": "Same input space as C20; for every accepted datagram the decoded fields and the re-encoded packet are compared with an independent from-the-spec parser that takes the header form from byte 0.",
        "level_note": "trusts snref (self-tested); allowed differences are exactly those the property lists (ignored flag bits, zero DISCONNECT duration, the length field)",
        "design_ref": "3/C22",
    },
}

# Properties not claimed, with the reason.
NOT_APPLICABLE = {}

CHECKS["C17"] = {
    "level": "fault_enumeration",
    "technique": "runtime monitoring: enumerated loss/duplication plans on an in-memory link between the real client library and a scripted gateway (virtual time); reference simulation of the retry protocol as oracle",
    "level_text": "For nine client API flows and RetryCount 1 and 2, every single drop/duplication of the first RetryCount+2 occurrences of every datagram of the flow in either direction, all pairs of such faults (a third of them in the quick tier) and all runs of consecutive request losses up to RetryCount+1 are injected; the API result is compared with a reference simulation and every client datagram of the flow is checked for DUP/message ID/content. PUBREL handling is checked with first/duplicated/late PUBRELs.",
    "level_note": "faults are addressed by (direction, type, occurrence index); timing ties between acknowledgement and deadline are not generated",
    "design_ref": "3/C17",
}

CHECKS["C27"] = {
    "level": "exploration",
    "crash_is_violation": True,
    "technique": "runtime monitoring: reference-matcher oracle over callback events of the real client library driven by a scripted gateway (virtual time); exhaustive single-filter x name matrix",
    "level_text": "Every one of the 105 filters over a small level alphabet (with '+', '#', empty levels) is subscribed alone and all 39 topic names are delivered to it (exhaustive for that matrix); two-filter sets are sampled in the quick tier and enumerated in the thorough tier; random subscribe/unsubscribe histories on top. The recorded callback invocations are compared with an independent MQTT topic matcher, before and after Unsubscribe. Third front: the subscriptions change between the arrival of a message and its delivery (QoS 2: PUBREL held back) - Unsubscribe, re-Subscribe with another callback, a re-Subscribe the gateway refuses, Subscribe of another matching filter. Fourth front: Unsubscribe and Subscribe of one already subscribed filter in progress at once (all accept/refuse combinations, both acknowledgement orders): the callback revoked by the accepted Unsubscribe never runs.",
    "level_note": "which of several matching callbacks runs is not constrained (the property asks for 'a' matching subscription)",
    "design_ref": "3/C27",
}

CHECKS["C28"] = {
    "level": "fault_enumeration",
    "timeout_s": {"quick": 400, "thorough": 1800},
    "crash_is_violation": True,
    "technique": "runtime monitoring in virtual time: gateway misbehaviours enumerated per API call; return-within-bound oracle and goroutine-leak inspection of the bubble's goroutine dump",
    "level_text": "About 50 gateway behaviours (silence/disconnect at each step, every unexpected packet type, garbage) x every API call x keep-alive on/off, plus all pairs of concurrent calls under four behaviours; every call runs in its own goroutine and must have returned after twice the documented bound of virtual time; after Close the goroutine dump of the bubble must contain no client goroutine. Further behaviours: the client's own k-th datagram write (or every write from the k-th on) returns a send error; keep-alive 500 ms besides 0 and 3 s. A client goroutine stuck on a mutex for ever is reported by the goroutine-state deadlock monitor.",
    "level_note": "a hang is detected at 2x the bound (exact budgets are C17/C19); leak detection relies on the 'synctest bubble' tag of runtime.Stack",
    "design_ref": "3/C28",
}

CHECKS["C34"] = {
    "level": "fault_enumeration",
    "exhaustive": True,
    "technique": "runtime monitoring in virtual time: 'client vanishes' injected after every client packet of base histories; deadline oracle against a keep-alive-enforcing broker model",
    "level_text": "The fault 'the client stops sending forever' is injected after every client packet of 48 base histories (active, single and multi-cycle sleeps with decreasing durations up to 65535 s, return to active after long sleeps, half-open connect; keep-alive 1/10/60 s) and each case is observed for 66000 virtual seconds against a broker model that enforces MQTT keep-alive. The oracle is the time at which the session handler returns. Also: a sleeping client with buffered messages whose wake-up flush runs into a send error (one or all writes fail), then silence; a session frozen on a leaked mutex counts as a half-open session (deadlock monitor).",
    "level_note": "assumes, as the property does, a broker that enforces keep-alive and drops connections without CONNECT (modelled: 1.5 x KA, 10 s)",
    "design_ref": "3/C34",
}

CHECKS["C16"] = {
    "level": "fault_enumeration",
    "technique": "runtime monitoring: enumerated loss/duplication plans on the in-memory datagram link between the real client library and the real gateway session (simulated broker behind it, virtual time); reference simulation of the retry protocol + wire/handler/broker-ack oracles",
    "level_text": "For six broker-to-client delivery flows (QoS 1/2 x known topic, REGISTER step, short topic) and RetryCount 1 and 2, every single drop of the first RetryCount+2 occurrences of every datagram of the flow in either direction, duplications, all pairs of those (a quarter of the pairs in the quick tier) and all runs of consecutive losses up to RetryCount+1 are injected. Handler invocations, the acknowledgements reaching the broker and every retransmitted datagram (ID, payload, DUP, spacing, count) are checked against a reference simulation of the retry budget. Second front: two broker messages (QoS 1/2, then QoS 0/1/2) on one new topic 0 / 1 s / 9 s / 11 s apart while the REGISTER or REGACK of the first is lost or duplicated: both reach the handler (QoS 2 exactly once), session and client stay up.",
    "level_note": "faults are addressed by (direction, type, occurrence index); 'within budget' is decided per protocol step (RetryCount+1 transmission attempts each), the reading under which a retry protocol can satisfy the property at all",
    "design_ref": "3/C16",
}

CHECKS["C26"] = {
    "level": "exploration",
    "technique": "runtime monitoring: generated API programs run by the real client library against the real gateway session and a conforming broker model in one virtual-time world; sequential effect model + delivery oracle over the recorded trace and callback events",
    "level_text": "About 1500 (quick) random legal API programs of 5-30 calls, with third-party broker messages (single and bursts on unregistered topics under wildcards) and repeated sleep cycles with traffic during sleep, are executed lock-step by the two real implementations together. The oracle compares what the broker saw with the calls (CONNECT fields, publishes, filters, DISCONNECT) and requires every message the broker sent to reach a handler of a matching filter exactly once (QoS 1: at least once). Second front (client library against a scripted conforming gateway): two calls on one filter/topic in progress at once (Subscribe+Subscribe, Subscribe+Unsubscribe, Unsubscribe+Subscribe, Register+Register, Register+Subscribe), every accept/refuse combination, acknowledgements in either order: both calls return what their acknowledgement says, a message runs a callback of an accepted subscription, Publish uses the TopicID that was handed out. Sleep durations include 0.5 s and 1.5 s.",
    "level_note": "lock-step execution (each call returns before the next starts); programs are legal by the library's documentation (Publish only on registered/short/predefined topics; after Sleep only Sleep/Connect/Disconnect)",
    "design_ref": "3/C26",
}

CHECKS["C32"] = {
    "level": "exploration",
    "exhaustive": True,
    "technique": "runtime monitoring: name-equality oracle over the broker-side trace and the client's handler events in a world where the real client library and the real gateway session share one predefined-topic map",
    "level_text": "All 256 predefined maps of a small space (two clients/'*', two IDs, three names incl. a 2-byte one) and hundreds of random larger maps with client-specific/'*' overlaps and shadowing are shared by the real client and the real gateway; every name of the map, unknown names and random 2-byte names are published/subscribed exactly as the command-line tools do (GetTopicID, else short) and also published by the broker. The oracle compares names only: what the broker saw with what the client used, and what the handler got with what the broker sent. A fifth of the sampled configurations use a 32-character client ID with its own section; a third of the clients connect with a last will.",
    "level_note": "exhaustive only for the small configuration space; lossless lock-step delivery; 2-byte names with wildcard characters are left out (not publishable in MQTT)",
    "design_ref": "3/C32",
}

CHECKS["C33"] = {
    "level": "exploration",
    "technique": "runtime monitoring in virtual time: wire-state oracle over timestamped PINGREQ datagrams of the real client library (keep-alive enabled) against a scripted gateway; API calls placed on a grid around the keep-alive tick instants",
    "level_text": "About 1600 (quick) programs with Sleep/Connect/Publish/Subscribe/Ping/Disconnect calls placed just before, exactly at and just after keep-alive ticks and during slow or retried keep-alive exchanges; the monitor rebuilds active/asleep/disconnected windows from the wire and checks ping spacing while active, silence while asleep or disconnected (incl. retransmissions of a ping begun earlier), and that no API call fails or hangs because of a keep-alive exchange. Keep-alive 500 ms is part of the configuration space (sub-second sleeps are sent as 1 s).",
    "level_note": "virtual time (synctest, post-1.23 ticker semantics); same-instant ties between a tick and a state change are not judged",
    "design_ref": "3/C33",
}

CHECKS["C06"] = {
    "level": "exploration",
    "exhaustive": True,
    "technique": "runtime monitoring: exhaustive interleaving of the protocol steps of two exchanges with one message ID (script-controlled peers, virtual time) against the real gateway session and the real client library; completion/exactly-once oracle over the recorded trace",
    "level_text": "For every pair (client-initiated exchange, broker/gateway-initiated exchange) with a coinciding message ID, every merge of their protocol steps is executed (the peers are scripted, so the order is chosen, not sampled), with and without an earlier finished, timed-out or unanswered exchange that used the same ID. The monitor requires each forward and acknowledgement exactly once, which exposes replaced or deleted exchange state as a missing or repeated packet. A fifth prefix reuses the message ID of a client QoS 2 exchange finished 5 s earlier while the answer of the new client exchange arrives 6 s late (more than one RetryDelay after the finished exchange began).",
    "level_note": "exhaustive for the listed exchange kinds and step orders (thorough: x all prefixes); steps are lock-step, so races inside one step are those of C25/C11",
    "design_ref": "3/C06",
}

CHECKS["C25"] = {
    "level": "exploration",
    "crash_is_violation": True,
    "phases": [
        {"name": "plain", "race": False, "test": "TestC25"},
        {"name": "race", "race": True, "test": "TestC25", "tiers": ["thorough"]},
    ],
    "timeout_s": {"quick": 600, "thorough": 5400},
    "technique": "runtime monitoring: stateful packet-sequence fuzzing of the real gateway session and the real client library in virtual time; crash watch by child-process survival (journal pins the case); race detector as diagnostic in the thorough tier",
    "level_text": "14300 (quick) generated packet sequences on four fronts - hostile MQTT-SN client against the gateway, hostile broker against the gateway, hostile gateway against the client library with API calls in flight, client terminated while calls are blocked and new ones start - with IDs and names drawn from small alphabets so that packets hit existing state, random timing incl. sleep cycles and racy injection. Any panic, fatal error or failed type assertion in any goroutine kills the child process; the driver re-runs the pending cases serially to pin the culprit.",
    "level_note": "sequences are sampled, not enumerated; only decodable packets are sent (undecodable ones are C20's subject); calls that never return are C28's subject",
    "design_ref": "3/C25",
}

CHECKS["C15"] = {
    "level": "exploration",
    "phases": [
        {"name": "plain", "race": False, "test": "TestC15"},
        {"name": "race", "race": True, "test": "TestC15", "tiers": ["thorough"]},
    ],
    "technique": "runtime monitoring: non-interference by differential replay (the observed session's recorded trace alone vs. beside 1-7 disturbing sessions of the same Gateway, virtual time) + real-socket run of ListenAndServe with several UDP peers and a fake TCP broker",
    "level_text": "500 (quick) observed-session scripts are each replayed alone and beside up to seven other sessions that share the Gateway value (configuration, predefined topics) and do everything from registering the same names and reusing the same client ID to sending garbage and being shut down; the observed session's complete trace (bytes, order, virtual timestamps) must not change and its payloads must not appear elsewhere. Three runs through the real ListenAndServe accept loop on loopback check one broker connection and one identity per peer address.",
    "level_note": "the disturbing sessions do not advance time (only then is the observed trace comparable); real-socket runs use short real timers and a watchdog whose expiry is inconclusive; race-detector reports of the thorough tier are diagnostics",
    "design_ref": "3/C15",
}

CHECKS["C30"] = {
    "level": "exploration",
    "max_inconclusive_frac": 0.3,
    "technique": "runtime monitoring at process level: the three built binaries run on loopback against a fake MQTT broker / fake MQTT-SN gateway of the harness; reference merge model (file, then options in order) as oracle over what appears on the wire and the exit status",
    "level_text": "40 (quick) generated configurations - YAML files and option lists with overlapping client IDs and topic IDs, via flags or environment - are given to bisquitt, bisquitt-pub and bisquitt-sub; probes through the real sockets show which name each (client, predefined ID) denotes for the gateway and which ID each tool uses for a topic name. All three must agree with one reference mapping.",
    "level_note": "process-level, real time: every verdict needs a positive observation (datagram seen, broker packet, exit status); watchdog expiry is inconclusive",
    "design_ref": "3/C30",
}

CHECKS["C31"] = {
    "level": "exploration",
    "exhaustive": True,
    "max_inconclusive_frac": 0.2,
    "technique": "runtime monitoring at process level: every flag/environment combination of the credential, DTLS and insecure options run through the three built binaries on loopback, observing exit status, bound port and first datagrams; plus a virtual-time wire monitor of the client library's CONNECT/AUTH pairing under retransmission",
    "level_text": "The whole option space (336 combinations over three tools, flags and environment variables incl. explicit 'false' values) is executed; the refusal rule is decided from positive observations (non-zero exit and nothing sent / port bound / first datagrams are CONNECT+AUTH or a DTLS handshake record). 48 library histories with retransmitted CONNECTs check that AUTH follows every CONNECT transmission exactly when a user is configured.",
    "level_note": "exhaustive for the listed option space; DTLS is observed only up to the first handshake record; process runs use real time with watchdogs (expiry is inconclusive)",
    "design_ref": "3/C31",
}
