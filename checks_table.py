# Per-property configuration of the driver (./check). One entry per claimed property.
# Keys: level, race (bool), phases (optional list), crash_is_violation, race_deciding_files,
# race_func_prefixes, min_distinct, exhaustive, assumptions, technique, level_text, level_note, design_ref.

CHECKS = {
    "C05": {
        "level": "exploration",
        "exhaustive": True,
        "technique": "runtime monitoring: reference-model oracle over an exhaustively enumerated bounded configuration space + random larger maps",
        "level_text": "All 262144 predefined-topic maps over 3 clients x 3 IDs x 3 names are enumerated and every lookup is compared with a 10-line reference (client entry, else '*' entry; ID lookup must be invertible); exhaustive for that bounded space, sampled beyond it.",
        "level_note": "the bounded space contains every overlap/shadowing pattern between one client entry and one '*' entry; larger maps are sampled only",
        "design_ref": "3/C05",
    },
    "C29": {
        "level": "exploration",
        "crash_is_violation": True,
        "phases": [
            {"name": "lin", "race": False, "test": "TestC29"},
            {"name": "race", "race": True, "test": "TestC29"},
        ],
        "race_deciding_files": True,
        "race_func_prefixes": ["util.(*IDSequence)", "transactions.(*TransactionStore)", "util.(*ClientState)", "util.NewIDSequence", "transactions.NewTransactionStore"],
        "technique": "runtime monitoring: porcupine linearizability checking of recorded concurrent histories + Go race detector on the same stress; sequential model conformance for small ranges",
        "level_text": "Thousands of short concurrent histories per run (few keys, 2-8 goroutines) recorded at the call boundary and checked for linearizability against a sequential counter/map/register model; the same stress is repeated unrecorded under -race, where any report (or 'concurrent map' fatal error) located in the three anchored types decides. Small (min,max) ranges are checked sequentially for 3 full cycles (exhaustive for 0<=min<=max<=6).",
        "level_note": "interleavings are those the Go scheduler produced on 16 cores in this run (counter histories_with_overlap), not all; porcupine timeouts are inconclusive",
        "design_ref": "3/C29",
    },
    "C07": {
        "level": "exploration",
        "technique": "runtime monitoring: trace oracle over lock-step packet sequences (exhaustive up to length 3) against the real session handler in virtual time",
        "level_text": "Every sequence of up to 3 pre-connect client packets over a 24-symbol alphabet, with authentication on and off (29k sessions), plus thousands of perturbed connect flows, is played to the real gateway handler; a linear monitor over the recorded wire trace checks that nothing is acknowledged or relayed before the broker accepted a CONNECT.",
        "level_note": "exhaustive only for length <= 3 over the chosen alphabet; lock-step delivery (races between the two receive loops are exercised by C25/C11)",
        "design_ref": "3/C07",
    },
    "C08": {
        "level": "exploration",
        "technique": "runtime monitoring: per-connect-exchange trace oracle over enumerated and perturbed CONNECT/AUTH/WILL* orderings",
        "level_text": "Same sequence space as C07 (all orderings/omissions/repeats up to length 3, perturbed longer flows) x auth on/off x four gateway credential settings; the monitor compares the credentials of every MQTT CONNECT with the AUTH packets of the same exchange / the configured ones.",
        "level_note": "credentials are compared byte-wise by an independent MQTT parser; AuthEnabled plumbing through ListenAndServe is exercised by C15's real-socket part only",
        "design_ref": "3/C08",
    },
    "C09": {
        "level": "exploration",
        "technique": "runtime monitoring: per-connect-exchange protocol-order oracle over enumerated and perturbed sequences",
        "level_text": "Same sequence space as C07/C08 with will/no-will CONNECTs, empty/QoS-3 will topics, keep-alive 0 and 65535 and broker CONNACK codes 0-5 and 9; the monitor checks request/response order of the will dialogue, the will fields and count of MQTT CONNECTs and the CONNACK code mapping.",
        "level_note": "duplicate WILLTOPICREQs caused by repeated AUTHs are not judged (the property does not forbid them)",
        "design_ref": "3/C09",
    },
    "C18": {
        "level": "exploration",
        "crash_is_violation": True,
        "phases": [
            {"name": "plain", "race": False, "test": "TestC18"},
            {"name": "race", "race": True, "test": "TestC18"},
        ],
        "race_deciding_files": True,
        "race_func_prefixes": ["transactions.", "client.(*sleepTransaction)", "client.newSleepTransaction"],
        "technique": "runtime monitoring: invariant probes (completion-callback counter, Err stability, callback-after-Done) over enumerated and colliding operation histories + Go race detector + crash watch",
        "level_text": "All operation sequences up to length 4 over the six transaction operations are run on five transaction variants in virtual time, plus same-instant and real-time collisions of completion calls with timers; probes assert at-most-once completion. The same workload runs under -race, where a report inside package transactions or the client's sleep transaction (or a nil dereference, seen as a crash) decides.",
        "level_note": "collision interleavings are sampled by the scheduler (16 cores, repetitions), not enumerated; race detector only sees races that occur in the run",
        "design_ref": "3/C18",
    },
    "C19": {
        "level": "exploration",
        "technique": "runtime monitoring in virtual time (testing/synctest): exact timestamped callback/Done log compared with a reference schedule simulation",
        "level_text": "A few thousand retry/timeout schedules (all RetryCount 0-5 x four delays x 0-3 progress events x three endings) run on the real transactions with a fake clock; the oracle is the exact virtual-time event list, so off-by-one retry counts, wrong delays and missing resets are all visible.",
        "level_note": "events are never placed on a timer tick (ties are C18's subject); the fake clock is Go's synctest",
        "design_ref": "3/C19",
    },
    "C20": {
        "level": "exploration",
        "crash_is_violation": True,
        "technique": "runtime monitoring: recover()-guarded decoder driven by exhaustive (len<=3), structural and mutation-generated datagrams",
        "level_text": "Every byte string of length 0-3 is decoded (exhaustive), plus ~0.5M structural/mutated longer datagrams per quick run; a panic anywhere in ReadPacket/Pack is caught by a same-goroutine recover and reported with the input. Exhaustive only for the short lengths; beyond that coverage is by generation.",
        "level_note": "trusts Go's recover to observe every panic of the synchronous decoder; runtime fatal errors would kill the child process and are reported as crashes by the driver",
        "design_ref": "3/C20",
    },
    "C21": {
        "level": "exploration",
        "technique": "runtime monitoring: round-trip oracle + independent spec-table parser over generated packets; exhaustive for the short-topic bijection",
        "level_text": "All 65536 short-topic IDs (exhaustive) and, per quick run, ~200k packets of all 28 types built through the public constructors with boundary sizes around the 255/256 header switch and up to MaxPayloadLength; each encoding is checked by an independent parser (length field, header form, field offsets) and decoded back.",
        "level_note": "field equality is checked through the packets' exported fields/getters; trusts snref",
        "design_ref": "3/C21",
    },
    "C22": {
        "level": "exploration",
        "technique": "runtime monitoring: differential oracle (independent spec-table parser snref) on every datagram the decoder accepts",
        "level_text": "Same input space as C20; for every accepted datagram the decoded fields and the re-encoded packet are compared with an independent from-the-spec parser that takes the header form from byte 0.",
        "level_note": "trusts snref (self-tested); allowed differences are exactly those the property lists (ignored flag bits, zero DISCONNECT duration, the length field)",
        "design_ref": "3/C22",
    },
}

# Properties not claimed, with the reason.
NOT_APPLICABLE = {}
