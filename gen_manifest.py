#!/usr/bin/env python3
"""Regenerates MANIFEST.json from checks_table.py and properties.jsonl."""
import json, os, subprocess
from checks_table import CHECKS, NOT_APPLICABLE

here = os.path.dirname(os.path.abspath(__file__))
props = [json.loads(l) for l in open(os.path.join(here, "properties.jsonl"))]
repo_commits = subprocess.run(["git", "-C", "/repo", "log", "--format=%h %s"], stdout=subprocess.PIPE, text=True).stdout.splitlines()
hook_commits = [c.split()[0] for c in repo_commits if c.split(" ", 1)[1].startswith("verif hooks")]

BASE = ("cd /repo && export GOFLAGS=-mod=mod GOPROXY=off GOSUMDB=off && "
        "go build ./... && go test -vet=off -count=1 -timeout 25m ./...")

m = {
    "version": 1,
    "setup_cmd": "./setup.sh",
    "hooks": {
        "guard": "verif",
        "enable": "go build tag: checks build /repo through the harness module (replace => /repo) with `go1.26.8 test -c -tags verif`; CLI binaries for C30-C32 are built without the tag",
        "baseline_off_cmd": BASE,
        "source_commits": hook_commits,
        "add_only": True,
    },
    "engines": [
        {"name": "harness", "path": "harness/", "serves_properties": sorted(CHECKS.keys()),
         "kind_free_text": "Go module: in-memory links, synctest virtual-time worlds around the real gateway session handler and client library, independent reference codecs, trace monitors, porcupine models"},
        {"name": "driver", "path": "check", "serves_properties": sorted(CHECKS.keys()),
         "kind_free_text": "python3 driver: builds with -tags verif (and -race where stated), child-process batches with crash recovery, race-log parsing, known-findings matching, evidence"},
    ],
    "checks": [],
    "not_applicable": [],
    "notes": "Exit codes: 0 held on everything explored, 1 violation (VIOLATION line), 2 inconclusive (INCONCLUSIVE line; never folded into 0/1). known_findings.json lists open findings (suppressed to KNOWN-FINDING lines by exact signature) and fixed ones (suppress nothing).",
}
for p in props:
    pid = p["id"]
    if pid in CHECKS:
        c = CHECKS[pid]
        m["checks"].append({
            "property_id": pid,
            "quick_cmd": "./check %s --tier quick" % pid,
            "thorough_cmd": "./check %s --tier thorough" % pid,
            "evidence_file": "evidence/%s.json" % pid,
            "replay_cmd_template": "./check %s --replay {path}" % pid,
            "engine": "harness",
            "level_claimed": {"category": c.get("level", "exploration"), "text": c["level_text"], "design_ref": c.get("design_ref", "")},
            "level_note": c["level_note"],
            "technique": c["technique"],
        })
    else:
        m["not_applicable"].append({"property_id": pid, "reason": NOT_APPLICABLE.get(pid, "check not built yet in this round (design in DESIGN.md section 3); not claimed")})
json.dump(m, open(os.path.join(here, "MANIFEST.json"), "w"), indent=1)
print("checks:", len(m["checks"]), "not_applicable:", len(m["not_applicable"]))
