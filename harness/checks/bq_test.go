package checks

import (
	"fmt"
	"os"
	"runtime/debug"
	"strings"

	pkts "github.com/energomonitor/bisquitt/packets"
	p1 "github.com/energomonitor/bisquitt/packets1"

	"verifharness/snref"
)

type byteReader struct {
	b    []byte
	done bool
}

func (r *byteReader) Read(p []byte) (int, error) {
	r.done = true
	return copy(p, r.b), nil
}

type panicInfo struct {
	Msg   string
	Site  string
	Stack string
}

// safeDecode runs bisquitt's ReadPacket on one datagram, recovering a panic.
func safeDecode(b []byte) (pkt pkts.Packet, err error, pi *panicInfo) {
	defer func() {
		if r := recover(); r != nil {
			st := string(debug.Stack())
			pi = &panicInfo{Msg: fmt.Sprint(r), Site: firstBisquittFrame(st), Stack: st}
		}
	}()
	pkt, err = p1.ReadPacket(&byteReader{b: b})
	return
}

func safePack(p pkts.Packet) (b []byte, err error, pi *panicInfo) {
	defer func() {
		if r := recover(); r != nil {
			st := string(debug.Stack())
			pi = &panicInfo{Msg: fmt.Sprint(r), Site: firstBisquittFrame(st), Stack: st}
		}
	}()
	b, err = p.Pack()
	return
}

// firstBisquittFrame returns the innermost function of bisquitt on a stack dump.
func firstBisquittFrame(stack string) string {
	for _, l := range strings.Split(stack, "\n") {
		l = strings.TrimSpace(l)
		if strings.HasPrefix(l, "github.com/energomonitor/bisquitt/") {
			if i := strings.LastIndex(l, "("); i > 0 {
				l = l[:i]
			}
			return strings.TrimPrefix(l, "github.com/energomonitor/bisquitt/")
		}
	}
	return "?"
}

// normPanic abstracts a panic message into a class (numbers removed).
func normPanic(msg string) string {
	var sb strings.Builder
	lastDigit := false
	for _, c := range msg {
		if c >= '0' && c <= '9' {
			if !lastDigit {
				sb.WriteByte('N')
			}
			lastDigit = true
			continue
		}
		lastDigit = false
		sb.WriteRune(c)
	}
	s := sb.String()
	if len(s) > 80 {
		s = s[:80]
	}
	return s
}

// fromBisquitt flattens a decoded bisquitt packet into the reference record.
func fromBisquitt(pkt pkts.Packet) *snref.Pkt {
	switch p := pkt.(type) {
	case *p1.Advertise:
		return &snref.Pkt{Type: snref.ADVERTISE, GwID: p.GatewayID, Duration: p.Duration}
	case *p1.SearchGw:
		return &snref.Pkt{Type: snref.SEARCHGW, Radius: p.Radius}
	case *p1.GwInfo:
		return &snref.Pkt{Type: snref.GWINFO, GwID: p.GatewayID, Data: p.GatewayAddress}
	case *p1.Auth:
		return &snref.Pkt{Type: snref.AUTH, Reason: p.Reason, Name: p.Method, Data: p.Data}
	case *p1.Connect:
		return &snref.Pkt{Type: snref.CONNECT, Will: p.Will, Clean: p.CleanSession, ProtoID: p.ProtocolID, Duration: p.Duration, ClientID: p.ClientID}
	case *p1.Connack:
		return &snref.Pkt{Type: snref.CONNACK, RC: byte(p.ReturnCode)}
	case *p1.WillTopicReq:
		return &snref.Pkt{Type: snref.WILLTOPICREQ}
	case *p1.WillTopic:
		return &snref.Pkt{Type: snref.WILLTOPIC, QoS: p.QOS, Retain: p.Retain, Name: p.WillTopic}
	case *p1.WillMsgReq:
		return &snref.Pkt{Type: snref.WILLMSGREQ}
	case *p1.WillMsg:
		return &snref.Pkt{Type: snref.WILLMSG, Data: p.WillMsg}
	case *p1.Register:
		return &snref.Pkt{Type: snref.REGISTER, TopicID: p.TopicID, MsgID: p.MessageID(), Name: p.TopicName}
	case *p1.Regack:
		return &snref.Pkt{Type: snref.REGACK, TopicID: p.TopicID, MsgID: p.MessageID(), RC: byte(p.ReturnCode)}
	case *p1.Publish:
		return &snref.Pkt{Type: snref.PUBLISH, DUP: p.DUP(), QoS: p.QOS, Retain: p.Retain, TIT: p.TopicIDType, TopicID: p.TopicID, MsgID: p.MessageID(), Data: p.Data}
	case *p1.Puback:
		return &snref.Pkt{Type: snref.PUBACK, TopicID: p.TopicID, MsgID: p.MessageID(), RC: byte(p.ReturnCode)}
	case *p1.Pubcomp:
		return &snref.Pkt{Type: snref.PUBCOMP, MsgID: p.MessageID()}
	case *p1.Pubrec:
		return &snref.Pkt{Type: snref.PUBREC, MsgID: p.MessageID()}
	case *p1.Pubrel:
		return &snref.Pkt{Type: snref.PUBREL, MsgID: p.MessageID()}
	case *p1.Subscribe:
		return &snref.Pkt{Type: snref.SUBSCRIBE, DUP: p.DUP(), QoS: p.QOS, TIT: p.TopicIDType, MsgID: p.MessageID(), TopicID: p.TopicID, Name: p.TopicName, HasName: p.TopicIDType == 0}
	case *p1.Suback:
		return &snref.Pkt{Type: snref.SUBACK, QoS: p.QOS, TopicID: p.TopicID, MsgID: p.MessageID(), RC: byte(p.ReturnCode)}
	case *p1.Unsubscribe:
		return &snref.Pkt{Type: snref.UNSUBSCRIBE, TIT: p.TopicIDType, MsgID: p.MessageID(), TopicID: p.TopicID, Name: p.TopicName, HasName: p.TopicIDType == 0}
	case *p1.Unsuback:
		return &snref.Pkt{Type: snref.UNSUBACK, MsgID: p.MessageID()}
	case *p1.Pingreq:
		return &snref.Pkt{Type: snref.PINGREQ, ClientID: p.ClientID}
	case *p1.Pingresp:
		return &snref.Pkt{Type: snref.PINGRESP}
	case *p1.Disconnect:
		return &snref.Pkt{Type: snref.DISCONNECT, Duration: p.Duration, HasDur: p.Duration != 0}
	case *p1.WillTopicUpd:
		return &snref.Pkt{Type: snref.WILLTOPICUPD, QoS: p.QOS, Retain: p.Retain, Name: p.WillTopic}
	case *p1.WillTopicResp:
		return &snref.Pkt{Type: snref.WILLTOPICRESP, RC: byte(p.ReturnCode)}
	case *p1.WillMsgUpd:
		return &snref.Pkt{Type: snref.WILLMSGUPD, Data: p.WillMsg}
	case *p1.WillMsgResp:
		return &snref.Pkt{Type: snref.WILLMSGRESP, RC: byte(p.ReturnCode)}
	}
	return nil
}

// canon returns type + canonical body of a reference record: flags rebuilt
// from the decoded fields and masked to the bits the type uses, a zero
// DISCONNECT duration treated as absent.
func canon(p *snref.Pkt) []byte {
	q := *p
	q.HasFlags = false
	if q.Type == snref.DISCONNECT && q.Duration == 0 {
		q.HasDur = false
	}
	if (q.Type == snref.SUBSCRIBE || q.Type == snref.UNSUBSCRIBE) && q.TIT == 0 {
		q.HasName = true
	}
	return append([]byte{q.Type}, q.EncodeBody()...)
}

// toBisquitt builds a bisquitt packet from a reference record through the
// public constructors and exported fields (what an application would do).
func toBisquitt(r *snref.Pkt) pkts.Packet {
	switch r.Type {
	case snref.ADVERTISE:
		return p1.NewAdvertise(r.GwID, r.Duration)
	case snref.SEARCHGW:
		return p1.NewSearchGw(r.Radius)
	case snref.GWINFO:
		return p1.NewGwInfo(r.GwID, r.Data)
	case snref.AUTH:
		a := p1.NewAuthPlain("", nil)
		a.Reason, a.Method, a.Data = r.Reason, r.Name, r.Data
		return a
	case snref.CONNECT:
		return p1.NewConnect(r.Duration, r.ClientID, r.Will, r.Clean)
	case snref.CONNACK:
		return p1.NewConnack(p1.ReturnCode(r.RC))
	case snref.WILLTOPICREQ:
		return p1.NewWillTopicReq()
	case snref.WILLTOPIC:
		return p1.NewWillTopic(r.Name, r.QoS, r.Retain)
	case snref.WILLMSGREQ:
		return p1.NewWillMsgReq()
	case snref.WILLMSG:
		return p1.NewWillMsg(r.Data)
	case snref.REGISTER:
		p := p1.NewRegister(r.TopicID, r.Name)
		p.SetMessageID(r.MsgID)
		return p
	case snref.REGACK:
		p := p1.NewRegack(r.TopicID, p1.ReturnCode(r.RC))
		p.SetMessageID(r.MsgID)
		return p
	case snref.PUBLISH:
		p := p1.NewPublish(r.TopicID, r.Data, r.DUP, r.QoS, r.Retain, r.TIT)
		p.SetMessageID(r.MsgID)
		return p
	case snref.PUBACK:
		p := p1.NewPuback(r.TopicID, p1.ReturnCode(r.RC))
		p.SetMessageID(r.MsgID)
		return p
	case snref.PUBCOMP:
		p := p1.NewPubcomp()
		p.SetMessageID(r.MsgID)
		return p
	case snref.PUBREC:
		p := p1.NewPubrec()
		p.SetMessageID(r.MsgID)
		return p
	case snref.PUBREL:
		p := p1.NewPubrel()
		p.SetMessageID(r.MsgID)
		return p
	case snref.SUBSCRIBE:
		p := p1.NewSubscribe(r.Name, r.TopicID, r.DUP, r.QoS, r.TIT)
		p.SetMessageID(r.MsgID)
		return p
	case snref.SUBACK:
		p := p1.NewSuback(r.TopicID, p1.ReturnCode(r.RC), r.QoS)
		p.SetMessageID(r.MsgID)
		return p
	case snref.UNSUBSCRIBE:
		p := p1.NewUnsubscribe(r.Name, r.TopicID, r.TIT)
		p.SetMessageID(r.MsgID)
		return p
	case snref.UNSUBACK:
		p := p1.NewUnsuback()
		p.SetMessageID(r.MsgID)
		return p
	case snref.PINGREQ:
		return p1.NewPingreq(r.ClientID)
	case snref.PINGRESP:
		return p1.NewPingresp()
	case snref.DISCONNECT:
		return p1.NewDisconnect(r.Duration)
	case snref.WILLTOPICUPD:
		return p1.NewWillTopicUpd(r.Name, r.QoS, r.Retain)
	case snref.WILLTOPICRESP:
		return p1.NewWillTopicResp(p1.ReturnCode(r.RC))
	case snref.WILLMSGUPD:
		return p1.NewWillMsgUpd(r.Data)
	case snref.WILLMSGRESP:
		return p1.NewWillMsgResp(p1.ReturnCode(r.RC))
	}
	return nil
}

// repoDir is the bisquitt tree under test (/repo unless the driver evaluates a scratch worktree).
func repoDir() string {
	if d := os.Getenv("VERIF_REPO"); d != "" {
		return d
	}
	return "/repo"
}
