package checks

import (
	"fmt"
	"os"
	"path/filepath"
	"sort"
	"testing"

	"github.com/energomonitor/bisquitt/topics"

	"verifharness/rt"
)

// refName is the reference lookup: client-specific entry, else "*" entry.
func refName(cfg topics.PredefinedTopics, client string, id uint16) (string, bool) {
	if m, ok := cfg[client]; ok {
		if n, ok := m[id]; ok {
			return n, true
		}
	}
	if m, ok := cfg["*"]; ok {
		if n, ok := m[id]; ok {
			return n, true
		}
	}
	return "", false
}

func cfgString(cfg topics.PredefinedTopics) string {
	var ks []string
	for c, m := range cfg {
		for id, n := range m {
			ks = append(ks, fmt.Sprintf("%s:%d=%s", c, id, n))
		}
	}
	sort.Strings(ks)
	return fmt.Sprint(ks)
}

// checkPredef runs all queries on one configuration. classify abstracts a violating query into a signature.
func checkPredef(c *rt.Case, cfg topics.PredefinedTopics, clients []string, ids []uint16, names []string, reps int) (queries int) {
	for _, cl := range clients {
		for _, id := range ids {
			want, wok := refName(cfg, cl, id)
			for k := 0; k < reps; k++ {
				got, ok := cfg.GetTopicName(cl, id)
				queries++
				if ok != wok || got != want {
					_, own := cfg[cl][id]
					c.Violation(fmt.Sprintf("name-lookup|own=%v", own),
						fmt.Sprintf("GetTopicName(%q,%d)=(%q,%v), expected (%q,%v) in %s", cl, id, got, ok, want, wok, cfgString(cfg)), map[string]interface{}{"config": cfgString(cfg)})
					break
				}
			}
		}
		for _, n := range names {
			exists := false
			for _, id := range ids {
				if rn, ok := refName(cfg, cl, id); ok && rn == n {
					exists = true
				}
			}
			found := false
			for k := 0; k < reps; k++ {
				id, ok := cfg.GetTopicID(cl, n)
				queries++
				if !ok {
					continue
				}
				found = true
				back, bok := refName(cfg, cl, id)
				if !bok || back != n {
					_, shadow := cfg[cl][id]
					c.Violation(fmt.Sprintf("id-lookup-not-invertible|shadowed-by-client-entry=%v", shadow),
						fmt.Sprintf("GetTopicID(%q,%q)=%d but ID %d means (%q,%v) for that client in %s", cl, n, id, id, back, bok, cfgString(cfg)), map[string]interface{}{"config": cfgString(cfg), "client": cl, "name": n, "id": id})
					break
				}
			}
			if exists && !found {
				c.R.Count("lookups_incomplete_nondeciding", 1)
			}
		}
	}
	return
}

func TestC05(t *testing.T) {
	r := rt.Start(t, "C05")
	nRandom := r.N(200, 4000)
	// cases 0..255: exhaustive slice of the 4^9 configurations (first 4 digits fixed by the case index)
	total := 256 + 1 + nRandom
	clients := []string{"a", "b", "*"}
	ids := []uint16{1, 2, 3}
	names := []string{"\x00absent", "x", "y", ""} // "\x00absent" = no entry; "" = an entry whose topic name is empty (option "client;;id")
	r.Each(t, total, 0, func(i int) string {
		switch {
		case i < 256:
			return fmt.Sprintf("exhaustive slice %d of configs over clients{a,b,*} x ids{1,2,3} x names{x,y,empty-name,absent}", i)
		case i == 256:
			return "repository topics.yaml + YAML round trip"
		}
		return fmt.Sprintf("random larger configs %d", i-257)
	}, func(t *testing.T, c *rt.Case) {
		switch {
		case c.I < 256:
			n, q := 0, 0
			for rest := 0; rest < 1024; rest++ { // 4^5
				code := c.I<<10 | rest // 18 bits = 9 base-4 digits
				cfg := topics.PredefinedTopics{}
				d := code
				for _, cl := range clients {
					for _, id := range ids {
						if nm := names[d&3]; nm != "\x00absent" {
							cfg.Add(cl, nm, id)
						}
						d >>= 2
					}
				}
				q += checkPredef(c, cfg, []string{"a", "b", "c"}, []uint16{1, 2, 3, 4}, []string{"x", "y", "", "w"}, 6)
				n++
			}
			c.Evals(n)
			c.Distinct(n)
			r.Count("queries", q)
			if c.I == 27 {
				r.Sample(map[string]interface{}{"config_example": "a:{1:x} b:{} *:{1:y,2:x}", "queries_per_config": q / n})
			}
		case c.I == 256:
			// the repo's own file, through the real reader, and a write/read round trip of generated maps
			path := repoDir() + "/topics/testdata/topics.yaml"
			cfg, err := topics.ReadPredefinedTopicsFile(path)
			if err != nil {
				c.Inconclusive("cannot read " + path + ": " + err.Error())
				return
			}
			var cls []string
			idset, nameset := map[uint16]bool{}, map[string]bool{}
			for cl, m := range cfg {
				cls = append(cls, cl)
				for id, n := range m {
					idset[id], nameset[n] = true, true
				}
			}
			cls = append(cls, "nobody")
			var idl []uint16
			for id := range idset {
				idl = append(idl, id)
			}
			var nl []string
			for n := range nameset {
				nl = append(nl, n)
			}
			q := checkPredef(c, cfg, cls, idl, nl, 16)
			r.Count("queries", q)
			r.Sample(map[string]interface{}{"file": path, "config": cfgString(cfg)})
			// YAML round trip
			rng := c.Rand()
			dir := t.TempDir()
			for k := 0; k < 50; k++ {
				cfg2 := topics.PredefinedTopics{}
				for e := 0; e < 1+rng.Intn(8); e++ {
					cfg2.Add([]string{"*", "c1", "c2", "dev-3"}[rng.Intn(4)], []string{"t/a", "t/b", "ab", "x/y/z"}[rng.Intn(4)], uint16(1+rng.Intn(5)))
				}
				y := ""
				for cl, m := range cfg2 {
					y += fmt.Sprintf("%q:\n", cl)
					for id, n := range m {
						y += fmt.Sprintf("  %d: %q\n", id, n)
					}
				}
				fp := filepath.Join(dir, fmt.Sprintf("t%d.yaml", k))
				os.WriteFile(fp, []byte(y), 0o644)
				back, err := topics.ReadPredefinedTopicsFile(fp)
				if err != nil || cfgString(back) != cfgString(cfg2) {
					c.Violation("yaml-roundtrip", fmt.Sprintf("file %q read back as %s (err %v), expected %s", y, cfgString(back), err, cfgString(cfg2)), nil)
				}
				c.Key("yaml|%s", cfgString(cfg2))
			}
			c.Evals(51)
			c.Key("repo-topics.yaml")
		default:
			rng := c.Rand()
			n := 0
			for k := 0; k < 200; k++ {
				cls := []string{"*", "c1", "c2", "c3", "c4"}
				nm := []string{"t/1", "t/2", "t/3", "ab", "cd", "long/topic/name", "t/+"}
				cfg := topics.PredefinedTopics{}
				ne := rng.Intn(20)
				// IDs: small ones and the boundaries of the legal range / of the byte and sign boundaries
				idPool := []uint16{1, 2, 3, 4, 5, 6, 7, 8, 1, 2, 3, 4, 0xFFFE, 0xFFFD, 255, 256, 0x7FFF, 0x8000}
				for e := 0; e < ne; e++ {
					cfg.Add(cls[rng.Intn(len(cls))], nm[rng.Intn(len(nm))], idPool[rng.Intn(len(idPool))])
				}
				q := checkPredef(c, cfg, append(cls[1:], "other"), []uint16{1, 2, 3, 4, 5, 6, 7, 8, 9, 0xFFFE, 0xFFFD, 255, 256, 0x7FFF, 0x8000}, nm, 4)
				r.Count("queries", q)
				c.Key("%s", cfgString(cfg))
				n++
			}
			c.Evals(n)
		}
	})
	r.Finish("configurations: all 4^9=262144 maps over clients {a,b,*} x IDs {1,2,3} x names {x, y, the empty name, absent} (exhaustive, 256 slices), the repository's topics.yaml through ReadPredefinedTopicsFile, 50 generated YAML files (round trip), random larger maps (5 clients, 7 names incl. a wildcard one, IDs 1-8 and the boundary IDs 255, 256, 0x7FFF, 0x8000, 0xFFFD, 0xFFFE). Per configuration every (client in a,b,c / id 1..4) name lookup and every (client, name) ID lookup is repeated 4-16 times (Go map iteration order varies) against a reference lookup; a configuration counts as one distinct case.", map[string]interface{}{"exhaustive_space": "4^9 configurations x 3 clients x (4 ids + 4 names)"})
}
