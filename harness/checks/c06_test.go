package checks

import (
	"fmt"
	"strings"
	"testing"
	"testing/synctest"
	"time"

	"github.com/energomonitor/bisquitt/client"
	p1 "github.com/energomonitor/bisquitt/packets1"

	"verifharness/monitors"
	"verifharness/mqttref"
	"verifharness/rt"
	"verifharness/snref"
	"verifharness/world"
)

// ---------------------------------------------------------------- gateway side

// c06ctx is what the steps of an exchange act on.
type c06ctx struct {
	w   *world.World
	s   *world.Session
	k   uint16 // the coinciding message ID
	tag string // payload tag of this case
}

// lastRegister returns the topic ID and message ID of the gateway's latest REGISTER for name.
func (x *c06ctx) lastRegister(name string) (tid, mid uint16, ok bool) {
	for _, e := range x.w.Tr.Events() {
		if e.Kind == world.SNOut {
			if p, _ := snref.ParseLoose(e.B); p != nil && p.Type == snref.REGISTER && p.Name == name {
				tid, mid, ok = p.TopicID, p.MsgID, true
			}
		}
	}
	return
}

type c06exp struct {
	kind string // world.SNOut / world.MQOut
	typ  byte
	desc string
}

// c06exchange: one exchange as a list of steps (each performed by one of the two peers) and the
// forwards the gateway owes by the end.
type c06exchange struct {
	name  string
	steps []func(x *c06ctx)
	exp   func(x *c06ctx) []c06exp
	side  string // "client" or "broker"
}

func c06clientExchanges() []c06exchange {
	return []c06exchange{
		{name: "client-PUBLISH-QoS1", side: "client", steps: []func(x *c06ctx){
			func(x *c06ctx) { x.s.SNSendP(snref.Publish(2, snref.ShortID("ab"), x.k, 1, false, false, []byte(x.tag+"-c"))) },
			func(x *c06ctx) { x.s.MQSend(mqttref.EncAck(mqttref.PUBACK, x.k)) },
		}, exp: func(x *c06ctx) []c06exp {
			return []c06exp{{world.MQOut, mqttref.PUBLISH, "client PUBLISH forwarded"}, {world.SNOut, snref.PUBACK, "PUBACK for the client's PUBLISH"}}
		}},
		{name: "client-PUBLISH-QoS2", side: "client", steps: []func(x *c06ctx){
			func(x *c06ctx) { x.s.SNSendP(snref.Publish(2, snref.ShortID("ab"), x.k, 2, false, false, []byte(x.tag+"-c"))) },
			func(x *c06ctx) { x.s.MQSend(mqttref.EncAck(mqttref.PUBREC, x.k)) },
			func(x *c06ctx) { x.s.SNSendP(snref.MsgOnly(snref.PUBREL, x.k)) },
			func(x *c06ctx) { x.s.MQSend(mqttref.EncAck(mqttref.PUBCOMP, x.k)) },
		}, exp: func(x *c06ctx) []c06exp {
			return []c06exp{{world.MQOut, mqttref.PUBLISH, "client PUBLISH forwarded"}, {world.SNOut, snref.PUBREC, "PUBREC for the client's PUBLISH"},
				{world.MQOut, mqttref.PUBREL, "client PUBREL forwarded"}, {world.SNOut, snref.PUBCOMP, "PUBCOMP for the client's PUBLISH"}}
		}},
		{name: "client-SUBSCRIBE", side: "client", steps: []func(x *c06ctx){
			func(x *c06ctx) { x.s.SNSendP(snref.SubscribeName(x.k, 1, "s/x")) },
			func(x *c06ctx) { x.s.MQSend(mqttref.EncSuback(x.k, 1)) },
		}, exp: func(x *c06ctx) []c06exp {
			return []c06exp{{world.MQOut, mqttref.SUBSCRIBE, "SUBSCRIBE forwarded"}, {world.SNOut, snref.SUBACK, "SUBACK for the client's SUBSCRIBE"}}
		}},
		{name: "client-UNSUBSCRIBE", side: "client", steps: []func(x *c06ctx){
			func(x *c06ctx) { x.s.SNSendP(snref.UnsubscribeName(x.k, "s/y")) },
			func(x *c06ctx) { x.s.MQSend(mqttref.EncAck(mqttref.UNSUBACK, x.k)) },
		}, exp: func(x *c06ctx) []c06exp {
			return []c06exp{{world.MQOut, mqttref.UNSUBSCRIBE, "UNSUBSCRIBE forwarded"}, {world.SNOut, snref.UNSUBACK, "UNSUBACK for the client's UNSUBSCRIBE"}}
		}},
		{name: "client-REGISTER", side: "client", steps: []func(x *c06ctx){
			func(x *c06ctx) { x.s.SNSendP(snref.Register(0, x.k, "r/x")) },
		}, exp: func(x *c06ctx) []c06exp {
			return []c06exp{{world.SNOut, snref.REGACK, "REGACK for the client's REGISTER"}}
		}},
	}
}

func c06brokerExchanges() []c06exchange {
	regack := func(name string) func(x *c06ctx) {
		return func(x *c06ctx) {
			if tid, mid, ok := x.lastRegister(name); ok {
				x.s.SNSendP(snref.Regack(tid, mid, 0))
			}
		}
	}
	mk := func(name string, qos byte, reg bool) c06exchange {
		topic := "cd"
		if reg {
			topic = "n/" + name
		}
		ex := c06exchange{name: name, side: "broker"}
		ex.steps = append(ex.steps, func(x *c06ctx) {
			mid := x.k
			if qos == 0 {
				mid = 0
			}
			x.s.MQSend(mqttref.EncPublish(topic, mid, qos, false, false, []byte(x.tag+"-b")))
		})
		if reg {
			ex.steps = append(ex.steps, regack(topic))
		}
		switch qos {
		case 1:
			ex.steps = append(ex.steps, func(x *c06ctx) { x.s.SNSendP(snref.Puback(0, x.k, 0)) })
		case 2:
			ex.steps = append(ex.steps,
				func(x *c06ctx) { x.s.SNSendP(snref.MsgOnly(snref.PUBREC, x.k)) },
				func(x *c06ctx) { x.s.MQSend(mqttref.EncAck(mqttref.PUBREL, x.k)) },
				func(x *c06ctx) { x.s.SNSendP(snref.MsgOnly(snref.PUBCOMP, x.k)) })
		}
		ex.exp = func(x *c06ctx) []c06exp {
			var out []c06exp
			if reg {
				out = append(out, c06exp{world.SNOut, snref.REGISTER, "REGISTER for the broker's topic"})
			}
			out = append(out, c06exp{world.SNOut, snref.PUBLISH, "broker PUBLISH delivered"})
			switch qos {
			case 1:
				out = append(out, c06exp{world.MQOut, mqttref.PUBACK, "PUBACK for the broker's PUBLISH"})
			case 2:
				out = append(out, c06exp{world.MQOut, mqttref.PUBREC, "PUBREC for the broker's PUBLISH"}, c06exp{world.SNOut, snref.PUBREL, "broker PUBREL delivered"},
					c06exp{world.MQOut, mqttref.PUBCOMP, "PUBCOMP for the broker's PUBLISH"})
			}
			return out
		}
		return ex
	}
	return []c06exchange{
		mk("broker-PUBLISH-QoS0+REGISTER", 0, true),
		mk("broker-PUBLISH-QoS1", 1, false),
		mk("broker-PUBLISH-QoS1+REGISTER", 1, true),
		mk("broker-PUBLISH-QoS2", 2, false),
		mk("broker-PUBLISH-QoS2+REGISTER", 2, true),
	}
}

// interleavings returns all merges of a (n steps) and b (m steps) as bit strings: true = next step of a.
func interleavings(n, m int) [][]bool {
	var out [][]bool
	var rec func(cur []bool, a, b int)
	rec = func(cur []bool, a, b int) {
		if a == n && b == m {
			out = append(out, append([]bool(nil), cur...))
			return
		}
		if a < n {
			rec(append(cur, true), a+1, b)
		}
		if b < m {
			rec(append(cur, false), a, b+1)
		}
	}
	rec(nil, 0, 0)
	return out
}

var c06prefixes = []string{"none", "completed-before", "broker-exchange-timed-out-before", "client-exchange-unanswered-before", "client-QoS2-finished-5s-before+answer-6s-late", "client-QoS1-finished-5s-before+answer-6s-late"}

type c06case struct {
	ci, bi int
	order  []bool
	prefix string
}

func c06gatewayCases(thorough bool, seed int64) []c06case {
	ces, bes := c06clientExchanges(), c06brokerExchanges()
	var out []c06case
	for ci, ce := range ces {
		for bi, be := range bes {
			ords := interleavings(len(ce.steps), len(be.steps))
			for oi, o := range ords {
				pf := "none"
				if thorough {
					for _, p := range c06prefixes {
						out = append(out, c06case{ci, bi, o, p})
					}
					continue
				}
				// quick: every interleaving once, the prefix rotating
				pf = c06prefixes[(oi+ci+bi+int(seed))%len(c06prefixes)]
				out = append(out, c06case{ci, bi, o, pf})
			}
		}
	}
	return out
}

func c06runGateway(t *testing.T, r *rt.Run, c *rt.Case, cs c06case) {
	ce, be := c06clientExchanges()[cs.ci], c06brokerExchanges()[cs.bi]
	var ord []string
	for _, b := range cs.order {
		if b {
			ord = append(ord, "C")
		} else {
			ord = append(ord, "B")
		}
	}
	c.Desc = fmt.Sprintf("gateway: %s x %s, step order %s, prefix %s", ce.name, be.name, strings.Join(ord, ""), cs.prefix)
	k := uint16(7)
	if strings.Contains(be.name, "QoS0") {
		k = 0xFFFF // the message ID the gateway picks for the REGISTER of a QoS 0 message
	}
	var evs []world.Ev
	startSeq := 0
	var x *c06ctx
	bubble(t, func() {
		w := world.New(world.GWConfig{RetryDelay: 10 * time.Second, RetryCount: 1})
		setup := true
		s := w.NewSession(nil, func(s *world.Session, p *mqttref.Pkt) {
			switch p.Type {
			case mqttref.CONNECT:
				s.MQSend(mqttref.EncConnack(false, 0))
			case mqttref.SUBSCRIBE:
				if setup {
					s.MQSend(mqttref.EncSuback(p.MsgID, 2))
				}
			}
		})
		x = &c06ctx{w: w, s: s, k: k, tag: fmt.Sprintf("c06-%d", c.I)}
		s.SNSendP(snref.Connect("cl", 3600, false, true))
		synctest.Wait()
		s.SNSendP(snref.SubscribeName(100, 2, "#"))
		synctest.Wait()
		setup = false
		switch cs.prefix {
		case "completed-before":
			s.MQSend(mqttref.EncPublish("cd", k, 1, false, false, []byte("earlier")))
			synctest.Wait()
			s.SNSendP(snref.Puback(0, k, 0))
			synctest.Wait()
		case "broker-exchange-timed-out-before":
			s.MQSend(mqttref.EncPublish("cd", k, 1, false, false, []byte("earlier-unacked")))
			synctest.Wait()
			time.Sleep(25 * time.Second) // RetryDelay x (RetryCount+1) and a bit
			synctest.Wait()
		case "client-exchange-unanswered-before":
			s.SNSendP(snref.Publish(2, snref.ShortID("ab"), k, 1, false, false, []byte("earlier-client")))
			synctest.Wait()
			time.Sleep(25 * time.Second)
			synctest.Wait()
		case "client-QoS1-finished-5s-before+answer-6s-late":
			// the same with an acknowledged QoS 1 exchange before
			s.SNSendP(snref.Publish(2, snref.ShortID("ab"), k, 1, false, false, []byte("earlier-q1")))
			synctest.Wait()
			s.MQSend(mqttref.EncAck(mqttref.PUBACK, k))
			synctest.Wait()
			time.Sleep(5 * time.Second)
			synctest.Wait()
		case "client-QoS2-finished-5s-before+answer-6s-late":
			// a client that reuses the message ID of a finished exchange at once: nothing of the finished one
			// (e.g. a timer set up RetryDelay = 10 s ago) may touch the new exchange, whose answer arrives 11 s
			// after the old exchange began and 6 s after the new one did
			s.SNSendP(snref.Publish(2, snref.ShortID("ab"), k, 2, false, false, []byte("earlier-q2")))
			synctest.Wait()
			s.MQSend(mqttref.EncAck(mqttref.PUBREC, k))
			synctest.Wait()
			s.SNSendP(snref.MsgOnly(snref.PUBREL, k))
			synctest.Wait()
			s.MQSend(mqttref.EncAck(mqttref.PUBCOMP, k))
			synctest.Wait()
			time.Sleep(5 * time.Second)
			synctest.Wait()
		}
		startSeq = w.Tr.Len()
		w.Tr.Add(0, world.Note, nil, "colliding exchanges start")
		ai, bi := 0, 0
		for _, isC := range cs.order {
			if isC {
				ce.steps[ai](x)
				ai++
				if ai == 1 && strings.HasSuffix(cs.prefix, "answer-6s-late") {
					synctest.Wait()
					time.Sleep(6 * time.Second)
				}
			} else {
				be.steps[bi](x)
				bi++
			}
			synctest.Wait()
		}
		// nothing may be left to retransmit: watch three retry periods
		time.Sleep(35 * time.Second)
		synctest.Wait()
		w.Tr.Add(0, world.Note, nil, "teardown")
		w.Finish()
		synctest.Wait()
		evs = w.Tr.Events()
		w.WaitHarness()
	})
	items, _, _ := monitors.Decode(evs, 0)
	witness := map[string]interface{}{"case": c.Desc, "message_id": k, "trace": world.Strings(evs, 120)}
	count := func(kind string, typ byte, needPayload string) int {
		n := 0
		for _, it := range items {
			if it.Seq < startSeq || it.Kind != kind {
				continue
			}
			if it.Kind == world.Note && it.Note == "teardown" {
				break
			}
			if kind == world.SNOut && it.SN != nil && it.SN.Type == typ {
				if typ == snref.PUBLISH && !strings.HasSuffix(string(it.SN.Data), needPayload) {
					continue
				}
				n++
			}
			if kind == world.MQOut && it.MQ != nil && it.MQ.Type == typ {
				if typ == mqttref.PUBLISH && !strings.HasSuffix(string(it.MQ.Payload), needPayload) {
					continue
				}
				n++
			}
		}
		return n
	}
	ended := false
	for _, it := range items {
		if it.Kind == world.Note && it.Note == "teardown" {
			break
		}
		if it.Kind == world.End {
			ended = true
		}
	}
	if ended {
		c.Violation("gateway|session-ended|"+ce.name+"|"+be.name, "the session ended while two exchanges with the same message ID were in progress: "+c.Desc, witness)
	}
	check := func(ex c06exchange, payloadSuffix string) {
		for _, e := range ex.exp(x) {
			n := count(e.kind, e.typ, payloadSuffix)
			tn := ""
			if e.kind == world.SNOut {
				tn = "SN-" + snref.TypeName(e.typ)
			} else {
				tn = "MQTT-" + mqttref.TypeName(e.typ)
			}
			switch {
			case n == 0:
				c.Violation(fmt.Sprintf("gateway|missing|%s|%s|other=%s", ex.name, tn, otherName(ex, ce, be)), fmt.Sprintf("%s: %s never happened (%s)", ex.name, e.desc, c.Desc), witness)
			case n > 1:
				c.Violation(fmt.Sprintf("gateway|repeated|%s|%s|other=%s", ex.name, tn, otherName(ex, ce, be)), fmt.Sprintf("%s: %s happened %d times - the exchange's state was lost and it was retried (%s)", ex.name, e.desc, n, c.Desc), witness)
			}
		}
	}
	check(ce, "-c")
	check(be, "-b")
	r.Count("gateway_interleavings", 1)
	c.Key("%s", c.Desc)
	if c.I == 33 {
		r.Sample(map[string]interface{}{"case": c.Desc, "message_id": k, "trace_tail": world.Strings(evs[startSeq:], 40)})
	}
}

func otherName(ex, ce, be c06exchange) string {
	if ex.side == "client" {
		return be.name
	}
	return ce.name
}

// ---------------------------------------------------------------- client library side

type c06cliCase struct {
	call   string // publish1 publish2 subscribe register unsubscribe
	gw     string // q0 q1 q2 register
	order  []bool // true = next gateway answer to the client's exchange, false = next gateway-initiated step
	before bool   // an earlier gateway-initiated QoS 2 exchange with the same ID completed just before
}

func c06clientCases() []c06cliCase {
	var out []c06cliCase
	nAns := map[string]int{"publish1": 1, "publish2": 2, "subscribe": 1, "register": 1, "unsubscribe": 1}
	nGw := map[string]int{"q0": 1, "q1": 1, "q2": 2, "register": 1}
	for _, call := range []string{"publish1", "publish2", "subscribe", "register", "unsubscribe"} {
		for _, gw := range []string{"q0", "q1", "q2", "register"} {
			for _, o := range interleavings(nAns[call], nGw[gw]) {
				for _, before := range []bool{false, true} {
					out = append(out, c06cliCase{call, gw, o, before})
				}
			}
		}
	}
	return out
}

func c06runClient(t *testing.T, r *rt.Run, c *rt.Case, cs c06cliCase) {
	var ord []string
	for _, b := range cs.order {
		if b {
			ord = append(ord, "A")
		} else {
			ord = append(ord, "G")
		}
	}
	c.Desc = fmt.Sprintf("client library: %s x gateway-initiated %s, order %s (A=answer to the call, G=gateway's own step), earlier exchange with the same ID: %v", cs.call, cs.gw, strings.Join(ord, ""), cs.before)
	var evs []world.Ev
	var callErr error
	returned := false
	var k uint16
	bubble(t, func() {
		tr := world.NewTrace()
		// manual gateway: answers CONNECT and the setup SUBSCRIBE itself, everything else is scripted
		setup := true
		var pending []*snref.Pkt // client requests not yet answered
		g := world.NewGwPeer(tr, 0, func(g *world.GwPeer, p *snref.Pkt, raw []byte) {
			if p == nil {
				return
			}
			switch p.Type {
			case snref.CONNECT:
				g.Send(snref.Connack(0))
			case snref.SUBSCRIBE, snref.PUBLISH, snref.REGISTER, snref.UNSUBSCRIBE, snref.PUBREL:
				if setup && p.Type == snref.SUBSCRIBE {
					g.Send(snref.Suback(0, p.MsgID, 0, p.QoS))
					return
				}
				if setup && p.Type == snref.REGISTER {
					g.Send(snref.Regack(50, p.MsgID, 0))
					return
				}
				pending = append(pending, p)
			case snref.DISCONNECT:
				g.Send(snref.Disconnect())
			}
		})
		cfg := stdClientCfg("cl")
		cl := newClientOn(g.Link.A, cfg)
		cl.Dial("mem")
		cl.Connect()
		cl.Subscribe("#", 2, cbRecorder(tr, 0, "#"))
		cl.Register("t/reg")
		synctest.Wait()
		setup = false
		a := newAPI(tr, 0)
		var n int
		cb := func(*client.Client, string, *p1.Publish) {}
		switch cs.call {
		case "publish1":
			n = a.Go("Publish(QoS1)", func() error { return cl.Publish("t/reg", []byte("own"), 1, false) })
		case "publish2":
			n = a.Go("Publish(QoS2)", func() error { return cl.Publish("t/reg", []byte("own"), 2, false) })
		case "subscribe":
			n = a.Go("Subscribe", func() error { return cl.Subscribe("s/x", 1, cb) })
		case "register":
			n = a.Go("Register", func() error { return cl.Register("r/x") })
		case "unsubscribe":
			n = a.Go("Unsubscribe", func() error { return cl.Unsubscribe("s/y") })
		}
		synctest.Wait()
		if len(pending) == 0 {
			evs = tr.Events()
			return
		}
		k = pending[0].MsgID // the client's message ID: the gateway-initiated exchange uses the same
		if cs.before {
			// cannot be placed before the call (the ID is not known yet); an exchange that
			// completes while the call is pending is the closest "finished earlier" history
			g.Send(snref.Publish(2, snref.ShortID("zz"), k, 2, false, false, []byte("earlier")))
			synctest.Wait()
			g.Send(snref.MsgOnly(snref.PUBREL, k))
			synctest.Wait()
		}
		answers := func(i int) {
			req := pending[0]
			switch req.Type {
			case snref.PUBLISH:
				if req.QoS == 1 {
					g.Send(snref.Puback(req.TopicID, req.MsgID, 0))
				} else if i == 0 {
					g.Send(snref.MsgOnly(snref.PUBREC, req.MsgID))
				} else {
					g.Send(snref.MsgOnly(snref.PUBCOMP, req.MsgID))
				}
			case snref.SUBSCRIBE:
				g.Send(snref.Suback(60, req.MsgID, 0, req.QoS))
			case snref.REGISTER:
				g.Send(snref.Regack(61, req.MsgID, 0))
			case snref.UNSUBSCRIBE:
				g.Send(snref.MsgOnly(snref.UNSUBACK, req.MsgID))
			}
		}
		gwStep := func(i int) {
			switch cs.gw {
			case "q0":
				g.Send(snref.Publish(2, snref.ShortID("cd"), k, 0, false, false, []byte("gw-msg")))
			case "q1":
				g.Send(snref.Publish(2, snref.ShortID("cd"), k, 1, false, false, []byte("gw-msg")))
			case "q2":
				if i == 0 {
					g.Send(snref.Publish(2, snref.ShortID("cd"), k, 2, false, false, []byte("gw-msg")))
				} else {
					g.Send(snref.MsgOnly(snref.PUBREL, k))
				}
			case "register":
				g.Send(snref.Register(70, k, "g/new"))
			}
		}
		ai, gi := 0, 0
		for _, isA := range cs.order {
			if isA {
				answers(ai)
				ai++
			} else {
				gwStep(gi)
				gi++
			}
			synctest.Wait()
		}
		time.Sleep(65 * time.Second) // beyond every retry budget of the call
		synctest.Wait()
		callErr, returned = a.Result(n)
		tr.Add(0, world.Note, nil, "teardown")
		cl.Close()
		time.Sleep(3 * time.Second)
		g.Close()
		synctest.Wait()
		evs = tr.Events()
	})
	witness := map[string]interface{}{"case": c.Desc, "message_id": k, "trace": world.Strings(evs, 100)}
	if k == 0 {
		c.Inconclusive("the client did not send its request")
		return
	}
	if !returned {
		c.Violation("client|call-hangs|"+cs.call+"|gw="+cs.gw, "the API call did not return: "+c.Desc, witness)
	} else if callErr != nil {
		c.Violation("client|call-failed|"+cs.call+"|gw="+cs.gw, fmt.Sprintf("the API call failed with %v although the gateway answered it: %s", callErr, c.Desc), witness)
	}
	// the client's own request must not have been retransmitted (its acknowledgement was delivered), and the
	// gateway-initiated exchange must have got its answers and its message delivered once
	reqs, cbs := 0, 0
	acks := map[byte]int{}
	for _, e := range evs {
		if e.Kind == world.Note && e.Note == "teardown" {
			break
		}
		if e.Kind == world.CB && string(e.B) == "gw-msg" {
			cbs++
		}
		if e.Kind != world.SNIn {
			continue
		}
		p, _ := snref.ParseLoose(e.B)
		if p == nil || p.MsgID != k {
			continue
		}
		switch p.Type {
		case snref.PUBLISH, snref.SUBSCRIBE, snref.REGISTER, snref.UNSUBSCRIBE:
			if p.Type != snref.REGISTER || p.Name != "t/reg" {
				reqs++
			}
		case snref.PUBACK, snref.PUBREC, snref.PUBCOMP, snref.REGACK:
			acks[p.Type]++
		}
	}
	if reqs > 1 {
		c.Violation("client|request-retransmitted|"+cs.call+"|gw="+cs.gw, fmt.Sprintf("the client transmitted its request %d times although the first one was answered: the acknowledgement did not reach the exchange (%s)", reqs, c.Desc), witness)
	}
	wantCB := 0
	switch cs.gw {
	case "q0":
		wantCB = 1
	case "q1":
		wantCB = 1
		if acks[snref.PUBACK] < 1 {
			c.Violation("client|gateway-exchange-unanswered|PUBACK|call="+cs.call, "the gateway's PUBLISH QoS 1 with the same message ID was not acknowledged: "+c.Desc, witness)
		}
	case "q2":
		wantCB = 1
		min := 1
		if cs.before {
			min = 2
		}
		if acks[snref.PUBREC] < min || acks[snref.PUBCOMP] < min {
			c.Violation("client|gateway-exchange-unanswered|PUBREC/PUBCOMP|call="+cs.call, fmt.Sprintf("the gateway's PUBLISH QoS 2 with the same message ID got %d PUBREC and %d PUBCOMP (expected %d each): %s", acks[snref.PUBREC], acks[snref.PUBCOMP], min, c.Desc), witness)
		}
	case "register":
		if acks[snref.REGACK] < 1 {
			c.Violation("client|gateway-exchange-unanswered|REGACK|call="+cs.call, "the gateway's REGISTER with the same message ID was not acknowledged: "+c.Desc, witness)
		}
	}
	if cbs != wantCB {
		c.Violation(fmt.Sprintf("client|gateway-message-handler-count|gw=%s|call=%s", cs.gw, cs.call), fmt.Sprintf("the gateway's message ran the handler %d times, expected %d: %s", cbs, wantCB, c.Desc), witness)
	}
	r.Count("client_interleavings", 1)
	c.Key("%s", c.Desc)
	if c.I%97 == 0 {
		r.Sample(map[string]interface{}{"case": c.Desc, "message_id": k, "trace_tail": world.Strings(evs[max0(len(evs)-25):], 0)})
	}
}

func TestC06(t *testing.T) {
	r := rt.Start(t, "C06")
	gws := c06gatewayCases(r.Thorough(), r.Seed)
	cls := c06clientCases()
	reps := r.N(1, 3)
	total := (len(gws) + len(cls)) * reps
	r.Each(t, total, 0, nil, func(t *testing.T, c *rt.Case) {
		i := c.I % (len(gws) + len(cls))
		if i < len(gws) {
			c06runGateway(t, r, c, gws[i])
		} else {
			c06runClient(t, r, c, cls[i-len(gws)])
		}
	})
	r.Finish(fmt.Sprintf("two exchanges with the same message ID, one started by each side, every interleaving of their protocol steps (the script decides when each peer acts; lock-step, virtual time). Gateway (real session handler, scripted client and broker): client exchanges {PUBLISH QoS 1, QoS 2, SUBSCRIBE, UNSUBSCRIBE, REGISTER} x broker exchanges {PUBLISH QoS 0 with REGISTER (the gateway picks ID 0xFFFF, so does the client), QoS 1, QoS 2, each with and without a REGISTER step} x all merges of their steps x prefix {none, an exchange with that ID completed just before, a broker exchange with that ID timed out before, an unanswered client exchange with that ID before, a client QoS 2 (or acknowledged QoS 1) exchange with that ID finished 5 s before while the answer of the new client exchange arrives 6 s late (= 11 s, more than one RetryDelay, after the finished one began)} (quick: prefixes rotate over the interleavings) = %d cases. Client library (real client, scripted gateway): calls {Publish QoS 1/2, Subscribe, Register, Unsubscribe} x gateway-initiated {PUBLISH QoS 0/1/2, REGISTER} using the client's own message ID x all merges x {with/without a completed gateway QoS 2 exchange with that ID in between} = %d cases. Oracle: every forward/acknowledgement each exchange is owed happens exactly once by 35 s (65 s) after the last step: a missing one means the acknowledgement was routed to the wrong exchange or dropped, a repeated one that the exchange's state was replaced or deleted and it was retried; the API call returns nil; the session/client stays up.", len(gws), len(cls)), nil)
}
