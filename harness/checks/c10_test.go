package checks

import (
	"fmt"
	"math/rand"
	"testing"
	"time"

	"verifharness/monitors"
	"verifharness/mqttref"
	"verifharness/rt"
	"verifharness/snref"
	"verifharness/world"
)

type c10case struct {
	auth   bool
	seq    []sym
	gaps   []time.Duration
	silent bool
	stall  bool // the broker has stopped reading: the gateway's write of the MQTT CONNECT blocks
}

func symByName(n string) sym {
	for _, s := range append(append([]sym{}, preSyms...), extraSyms...) {
		if s.name == n {
			return s
		}
	}
	panic("no symbol " + n)
}

// c10cases enumerates every prefix of every connect exchange after which the client (or the broker) is silent.
func c10cases() []c10case {
	var out []c10case
	flows := []struct {
		auth bool
		syms []string
	}{
		{false, []string{"CONNECT"}},
		{false, []string{"CONNECT(will)", "WILLTOPIC(w/t,q1,r)", "WILLMSG(bye)"}},
		{true, []string{"CONNECT", "AUTH(u1:p1)"}},
		{true, []string{"CONNECT(will)", "AUTH(u1:p1)", "WILLTOPIC(w/t,q1,r)", "WILLMSG(bye)"}},
		{true, []string{"CONNECT(will,ka=65535)", "AUTH(u2:p2)", "WILLTOPIC(w/t,q1,r)", "WILLMSG(empty)"}},
	}
	gapChoices := []time.Duration{0, time.Second, 4900 * time.Millisecond}
	for _, f := range flows {
		for plen := 1; plen <= len(f.syms); plen++ {
			full := plen == len(f.syms)
			// all gap assignments for short prefixes, a fixed sample for longer ones
			ngap := 1
			for i := 0; i < plen; i++ {
				ngap *= len(gapChoices)
			}
			for g := 0; g < ngap; g++ {
				var gaps []time.Duration
				x := g
				for i := 0; i < plen; i++ {
					gaps = append(gaps, gapChoices[x%3])
					x /= 3
				}
				var seq []sym
				for _, n := range f.syms[:plen] {
					seq = append(seq, symByName(n))
				}
				// client falls silent after the prefix (broker would answer); for the full flow the broker is silent
				out = append(out, c10case{auth: f.auth, seq: seq, gaps: gaps, silent: full})
				if full && g%3 == 0 {
					// the broker accepted the TCP connection but reads nothing (4 bytes of buffer): the write of the MQTT CONNECT blocks
					out = append(out, c10case{auth: f.auth, seq: seq, gaps: gaps, silent: true, stall: true})
				}
				// re-CONNECT in the middle: the bound counts from the last CONNECT
				if plen >= 1 && g%3 == 1 {
					seq2 := append(append([]sym{}, seq...), symByName(f.syms[0]))
					gaps2 := append(append([]time.Duration{}, gaps...), gapChoices[(g/3)%3])
					out = append(out, c10case{auth: f.auth, seq: seq2, gaps: gaps2, silent: true})
				}
				// stray packets of the exchange repeated / out of order after the prefix
				if g == 0 {
					for _, extra := range []string{"WILLMSG(bye)", "WILLTOPIC(w/t,q1,r)", "AUTH(u1:p1)", "CONNECT(ka=0)", "CONNECT(proto=2)"} {
						seq3 := append(append([]sym{}, seq...), symByName(extra))
						out = append(out, c10case{auth: f.auth, seq: seq3, gaps: gaps, silent: true})
					}
				}
			}
		}
	}
	return out
}

func TestC10(t *testing.T) {
	r := rt.Start(t, "C10")
	cases := c10cases()
	wl := Workload{
		Name: "half-open-connect",
		N:    func(*rt.Run) int { return len(cases) },
		Run: func(t *testing.T, c *rt.Case, i int, rng *rand.Rand) *GWRun {
			cs := cases[i]
			if cs.stall {
				g := runConnectSeq(t, c, cs.seq, cs.auth, 2, 0, cs.silent, cs.gaps, func(s *world.Session) {
					// an unbuffered transport (as net.Pipe is): nothing is taken off the gateway's hands until the broker reads
					s.StallBroker(4)
					s.MQ.B.Inject([]byte{0, 0, 0, 0})
				})
				g.Desc += " broker-not-reading"
				return g
			}
			return runConnectSeq(t, c, cs.seq, cs.auth, 2, 0, cs.silent, cs.gaps)
		},
	}
	runWorkloads(t, r, []Workload{wl}, func(g *GWRun) ([]monitors.V, int) {
		return judgeC10(g.Items)
	})
	r.Finish(fmt.Sprintf("all %d cases: every prefix of the 5 connect flows {plain, will, auth, auth+will, auth+will(ka 65535, empty will message)} after which the client is silent, the complete flow with a broker that never answers and with one that does not even read (the gateway's write of the MQTT CONNECT blocks), every assignment of gaps {0,1 s,4.9 s} between the client's steps, a repeated CONNECT (bound counts from the last one), a CONNECT the gateway refuses (keep-alive 0, protocol ID 2) in the middle of the exchange, and stray repeated exchange packets. Oracle in virtual time: if no broker CONNACK arrived, the handler returns no later than 5 s + 100 ms after the last CONNECT and the gateway has closed the broker connection by then. exhaustive for this stated space.", len(cases)), nil)
}

func judgeC10(items []monitors.Item) (vs []monitors.V, checked int) {
	var lastConnect *monitors.Item
	for i := range items {
		it := items[i]
		if it.MQ != nil && it.Kind == world.MQIn && it.MQ.Type == mqttref.CONNACK {
			return nil, 0 // the broker answered: not a half-open exchange
		}
		if it.Kind == world.SNIn && it.SN != nil && it.SNErr == nil && it.SN.Type == snref.CONNECT && it.Fault == "" {
			lastConnect = &items[i]
		}
		if it.Kind == world.Note {
			break
		}
	}
	if lastConnect == nil {
		return nil, 0
	}
	checked = 1
	end, ok := monitors.EndTime(items)
	bound := lastConnect.T + 5*time.Second + 100*time.Millisecond
	shutdownAt := time.Duration(-1)
	closedAt := time.Duration(-1)
	for _, it := range items {
		if it.Kind == world.Note && shutdownAt < 0 {
			shutdownAt = it.T
		}
		if it.Kind == world.CloseMG && closedAt < 0 {
			closedAt = it.T
		}
	}
	if !ok || end > bound {
		what := fmt.Sprintf("half-open connect exchange: last CONNECT at %v, handler returned at %v (bound %v)", lastConnect.T, end, bound)
		if !ok {
			what = fmt.Sprintf("half-open connect exchange: last CONNECT at %v, handler never returned (bound %v)", lastConnect.T, bound)
		}
		vs = append(vs, monitors.V{Prop: "C10", Sig: "not-reaped-in-time", What: what, Seq: lastConnect.Seq})
	}
	if closedAt < 0 || closedAt > bound {
		vs = append(vs, monitors.V{Prop: "C10", Sig: "broker-connection-not-closed", What: fmt.Sprintf("broker connection closed at %v (bound %v; -1 = never)", closedAt, bound), Seq: lastConnect.Seq})
	}
	return
}
