package checks

import (
	"context"
	"fmt"
	"net"
	"runtime"
	"strings"
	"sync"
	"testing"
	"time"

	"github.com/energomonitor/bisquitt/gateway"
	"github.com/energomonitor/bisquitt/topics"
	"github.com/energomonitor/bisquitt/util"

	"verifharness/memnet"
	"verifharness/monitors"
	"verifharness/rt"
	"verifharness/snref"
	"verifharness/world"
)

// refState replays the wire to the client state the property talks about.
// Values: "disconnected", "active", "asleep", "awake", "dontcare".
func refState(items []monitors.Item, uptoSeq int) string {
	st := "disconnected"
	sleepReq := false
	for _, it := range items {
		if it.Seq >= uptoSeq {
			break
		}
		if it.SN == nil || it.SNErr != nil {
			continue
		}
		p := it.SN
		switch it.Kind {
		case world.SNOut:
			switch p.Type {
			case snref.CONNACK:
				if p.RC == 0 {
					st = "active"
				}
			case snref.DISCONNECT:
				if sleepReq {
					st = "asleep"
					sleepReq = false
				} else {
					st = "disconnected"
				}
			case snref.PINGRESP:
				if st == "awake" {
					st = "dontcare" // the phase after a wake-up's PINGRESP is C11's subject
				}
			}
		case world.SNIn:
			if it.Fault == "drop" {
				continue
			}
			switch p.Type {
			case snref.DISCONNECT:
				if p.HasDur && p.Duration > 0 {
					if st == "active" || st == "awake" || st == "dontcare" || st == "asleep" {
						sleepReq = true
					}
				} else {
					st = "disconnected"
				}
			case snref.PINGREQ:
				if st == "asleep" {
					st = "awake"
				}
			case snref.CONNECT:
				if st == "asleep" || st == "dontcare" {
					st = "dontcare" // CONNECT from a sleeping client: reconnect path, state settles with CONNACK
				}
			}
		}
	}
	return st
}

func judgeC13(g *GWRun) (vs []monitors.V, checked int) {
	items := g.Items
	cause, _ := g.Extra["cause"].(string)
	var causeIt *monitors.Item
	for i := range items {
		if items[i].Kind == world.Note && strings.HasPrefix(items[i].Note, "cause:") {
			causeIt = &items[i]
			break
		}
	}
	if causeIt == nil {
		return nil, 0
	}
	// for causes that are client packets the cause is the packet that follows the note
	causeSeq, causeT := causeIt.Seq, causeIt.T
	if cause == "client-disconnect" || cause == "illegal-packet" {
		for _, it := range items {
			if it.Seq > causeIt.Seq && it.Kind == world.SNIn {
				causeSeq, causeT = it.Seq, it.T
				break
			}
		}
	}
	// a session that had already ended before the cause is not a case
	if end, ok := monitors.EndTime(items); ok {
		for _, it := range items {
			if it.Kind == world.End && it.Seq < causeSeq {
				_ = end
				return nil, 0
			}
		}
	}
	st := refState(items, causeSeq)
	cls := fmt.Sprintf("%s|state=%s", cause, st)
	checked = 1
	end, ok := monitors.EndTime(items)
	bound := causeT + 100*time.Millisecond + 10*time.Millisecond
	if !ok {
		vs = append(vs, monitors.V{Prop: "C13", Sig: "session-does-not-end|" + cls, What: fmt.Sprintf("session still running 130 s (virtual) after %s in state %s", cause, st), Seq: causeSeq})
		return
	}
	if end > bound {
		vs = append(vs, monitors.V{Prop: "C13", Sig: "session-ends-late|" + cls, What: fmt.Sprintf("%s at %v in state %s: handler returned at %v (bound: one 100 ms poll interval)", cause, causeT, st, end), Seq: causeSeq})
	}
	closed := false
	gotDisc := false
	for _, it := range items {
		if it.Kind == world.CloseMG && it.T <= end {
			closed = true
		}
		if it.Seq > causeSeq && it.Kind == world.SNOut && it.SN != nil && it.SN.Type == snref.DISCONNECT {
			gotDisc = true
		}
		if it.Kind == world.End {
			break
		}
	}
	if !closed {
		vs = append(vs, monitors.V{Prop: "C13", Sig: "broker-connection-left-open|" + cls, What: "handler returned without closing the broker connection", Seq: causeSeq})
	}
	if cause == "client-disconnect" {
		// the client that disconnects itself gets the reply to its DISCONNECT, at most once - never a second,
		// unsolicited DISCONNECT from the termination path
		n := 0
		for _, it := range items {
			if it.Seq > causeSeq && it.Kind == world.SNOut && it.SN != nil && it.SN.Type == snref.DISCONNECT {
				n++
			}
		}
		checked++
		if n > 1 {
			vs = append(vs, monitors.V{Prop: "C13", Sig: "client-disconnect-notice|twice|" + cls, What: fmt.Sprintf("the client disconnected itself (state %s) and was sent %d DISCONNECTs", st, n), Seq: causeSeq})
		}
	}
	if cause != "client-disconnect" && st != "dontcare" {
		checked++
		want := st == "active" || st == "awake"
		if gotDisc != want {
			vs = append(vs, monitors.V{Prop: "C13", Sig: fmt.Sprintf("client-disconnect-notice|want=%v|%s", want, cls), What: fmt.Sprintf("%s in state %s: DISCONNECT sent to the client = %v, expected %v", cause, st, gotDisc, want), Seq: causeSeq})
		}
	}
	return
}

var dialMu sync.Mutex

func runDialFailure(c *rt.Case, variant int) {
	dialMu.Lock()
	defer dialMu.Unlock()
	// find a closed port
	l, err := net.Listen("tcp", "127.0.0.1:0")
	if err != nil {
		c.Inconclusive("no loopback: " + err.Error())
		return
	}
	addr := l.Addr().(*net.TCPAddr)
	l.Close()
	gw := gateway.NewGateway(util.NoOpLogger{}, &gateway.GatewayConfig{MqttBrokerAddress: addr, MqttConnectionTimeout: time.Second,
		PredefinedTopics: topics.PredefinedTopics{}, RetryDelay: time.Second, RetryCount: 1})
	link := memnet.NewPacketLink("client", "gw")
	var got [][]byte
	var mu sync.Mutex
	go func() {
		buf := make([]byte, 9000)
		for {
			n, err := link.A.Read(buf)
			if err != nil {
				return
			}
			mu.Lock()
			got = append(got, append([]byte(nil), buf[:n]...))
			mu.Unlock()
		}
	}()
	ctx, cancel := context.WithCancel(context.Background())
	defer cancel()
	done := make(chan struct{})
	before := countHandlerGoroutines()
	go func() {
		gw.VerifServeConn(ctx, util.NoOpLogger{}, link.B, nil)
		close(done)
	}()
	if variant > 0 {
		link.A.Write(snref.Connect("cl", 10, variant == 2, true).Encode())
	}
	select {
	case <-done:
	case <-time.After(20 * time.Second):
		c.Violation("dial-failure|session-does-not-end", "session whose broker connection could not be established did not end within 20 s", nil)
		return
	}
	// the session is over; give its goroutines a moment, then look for survivors
	var leaks []string
	for k := 0; k < 500; k++ { // up to 10 s (real time, ends as soon as nothing is left)
		time.Sleep(20 * time.Millisecond)
		leaks = handlerGoroutines()
		if len(leaks) <= before {
			break
		}
	}
	link.A.Close()
	if len(leaks) > before {
		c.Violation("dial-failure|goroutine-leak|"+leakSite(leaks[len(leaks)-1]), fmt.Sprintf("after a session ended because the broker could not be reached, %d goroutine(s) of it are still alive (until the whole gateway stops)", len(leaks)-before), map[string]interface{}{"stacks": leaks})
	}
	mu.Lock()
	n := len(got)
	mu.Unlock()
	c.R.Count("dial_failure_datagrams_to_client", n)
	c.Key("dial-failure|%d", variant)
}

// runShutdownSockets: the real accept loop. Gateway.ListenAndServe on loopback UDP with a fake TCP
// broker, several connected peers (some asleep), then the gateway's context is cancelled.
func runShutdownSockets(c *rt.Case, variant int) {
	dialMu.Lock()
	defer dialMu.Unlock()
	br, err := newFakeBroker()
	if err != nil {
		c.Inconclusive("no loopback TCP")
		return
	}
	defer br.close()
	port, err := freeUDPPort()
	if err != nil {
		c.Inconclusive("no loopback UDP")
		return
	}
	addr := fmt.Sprintf("127.0.0.1:%d", port)
	gw := gateway.NewGateway(util.NoOpLogger{}, &gateway.GatewayConfig{MqttBrokerAddress: br.ln.Addr().(*net.TCPAddr), MqttConnectionTimeout: 2 * time.Second,
		PredefinedTopics: topics.PredefinedTopics{}, RetryDelay: time.Second, RetryCount: 1})
	ctx, cancel := context.WithCancel(context.Background())
	defer cancel()
	before := countHandlerGoroutines()
	served := make(chan error, 1)
	var servedAt time.Time
	go func() { err := gw.ListenAndServe(ctx, addr); servedAt = time.Now(); served <- err }()
	time.Sleep(100 * time.Millisecond)
	nPeers := 2 + variant*2
	type peer struct {
		conn   net.Conn
		asleep bool
		got    chan *snref.Pkt
	}
	var peers []*peer
	for i := 0; i < nPeers; i++ {
		conn, err := net.Dial("udp", addr)
		if err != nil {
			c.Inconclusive("cannot dial the gateway")
			return
		}
		p := &peer{conn: conn, asleep: i%2 == 1, got: make(chan *snref.Pkt, 32)}
		peers = append(peers, p)
		go func() {
			buf := make([]byte, 2048)
			for {
				n, err := conn.Read(buf)
				if err != nil {
					close(p.got)
					return
				}
				if q, _ := snref.ParseLoose(append([]byte(nil), buf[:n]...)); q != nil {
					p.got <- q
				}
			}
		}()
		wait := func(ty byte) bool {
			for {
				select {
				case q, ok := <-p.got:
					if !ok {
						return false
					}
					if q.Type == ty {
						return true
					}
				case <-time.After(2 * time.Second):
					return false
				}
			}
		}
		conn.Write(snref.Connect(fmt.Sprintf("p%d", i), 30, false, true).Encode())
		if !wait(snref.CONNACK) {
			c.Inconclusive("no CONNACK within 2 s")
			return
		}
		if p.asleep {
			conn.Write(snref.Sleep(60).Encode())
			if !wait(snref.DISCONNECT) {
				c.Inconclusive("no reply to the sleep request within 2 s")
				return
			}
		}
	}
	t0 := time.Now()
	cancel()
	// every active peer is told; sleeping peers are not
	for i, p := range peers {
		gotDisc := false
		// real time: an active peer is given 10 s (it is told within ~100 ms; the generous limit only keeps a
		// loaded machine from turning into a verdict), a sleeping one is watched for 1 s
		wait := 10 * time.Second
		if p.asleep {
			wait = time.Second
		}
		deadline := time.After(wait)
	loop:
		for {
			select {
			case q, ok := <-p.got:
				if !ok {
					break loop
				}
				if q.Type == snref.DISCONNECT {
					gotDisc = true
					break loop
				}
			case <-deadline:
				break loop
			}
		}
		if gotDisc == p.asleep {
			c.Violation(fmt.Sprintf("sockets-shutdown|client-disconnect-notice|asleep=%v", p.asleep), fmt.Sprintf("gateway shutdown: peer %d (asleep=%v) DISCONNECT received=%v", i, p.asleep, gotDisc), nil)
		}
		p.conn.Close()
	}
	select {
	case err := <-served:
		// how long it took is judged in virtual time by the termination cases; here (real sockets, real time,
		// possibly a loaded machine) it is only recorded
		_ = err
		if d := servedAt.Sub(t0); d > 1500*time.Millisecond {
			c.R.Count("socket_shutdown_slower_than_1500ms", 1)
		}
	case <-time.After(30 * time.Second):
		c.Violation("sockets-shutdown|listen-and-serve-does-not-return", "ListenAndServe still running 30 s after its context was cancelled", nil)
		return
	}
	var leaks []string
	for k := 0; k < 500; k++ { // up to 10 s (real time, ends as soon as nothing is left)
		time.Sleep(20 * time.Millisecond)
		leaks = handlerGoroutines()
		if len(leaks) <= before {
			break
		}
	}
	if len(leaks) > before {
		c.Violation("sockets-shutdown|goroutine-leak|"+leakSite(leaks[len(leaks)-1]), fmt.Sprintf("%d session goroutine(s) still alive 10 s after the gateway was shut down", len(leaks)-before), map[string]interface{}{"stacks": leaks})
	}
	c.R.Count("socket_shutdown_peers", nPeers)
	c.Key("sockets-shutdown|%d", nPeers)
}

func countHandlerGoroutines() int { return len(handlerGoroutines()) }

// handlerGoroutines returns stacks of goroutines outside any bubble that are inside the gateway session handler.
func handlerGoroutines() []string {
	buf := make([]byte, 4<<20)
	n := runtime.Stack(buf, true)
	var out []string
	for _, b := range strings.Split(string(buf[:n]), "\n\n") {
		head := b
		if i := strings.Index(b, "\n"); i > 0 {
			head = b[:i]
		}
		if strings.Contains(head, "synctest bubble") {
			continue
		}
		if strings.Contains(b, "bisquitt/gateway.(*handler1)") {
			if len(b) > 1200 {
				b = b[:1200]
			}
			out = append(out, b)
		}
	}
	return out
}

func TestC13(t *testing.T) {
	r := rt.Start(t, "C13")
	leakIsViolation = "C13"
	r.DeadlockIsViolation = true
	nTerm := len(termCases())
	nDial := 3
	nShut := 3
	reps := r.N(1, 4)
	nFault := len(faultCases())
	total := nTerm*reps + nDial + nShut + nFault
	r.Each(t, total, 0, func(i int) string {
		if i >= nTerm*reps+nDial+nShut {
			fc := faultCases()[i-nTerm*reps-nDial-nShut]
			return fmt.Sprintf("%s/send-fault@%d/all=%v/broker=%v/%s", baseHistories()[fc.h].name, fc.cut, fc.all, fc.broker, fc.cause)
		}
		if i >= nTerm*reps+nDial {
			return fmt.Sprintf("real-socket gateway shutdown#%d", i-nTerm*reps-nDial)
		}
		if i >= nTerm*reps {
			return fmt.Sprintf("dial-failure#%d", i-nTerm*reps)
		}
		tc := termCases()[i%nTerm]
		return fmt.Sprintf("%s/cut=%d/%s rep %d", baseHistories()[tc.h].name, tc.cut, tc.cause, i/nTerm)
	}, func(t *testing.T, c *rt.Case) {
		if c.I >= nTerm*reps+nDial+nShut {
			g := wlSendFault.Run(t, c, c.I-nTerm*reps-nDial-nShut, c.Rand())
			vs, checked := judgeC13(g)
			// whatever ended the session (the failed send itself, or the cause): once the handler has
			// returned the broker connection must be closed; a session that never returns is a violation
			end, ended := monitors.EndTime(g.Items)
			closed, sendErrs := false, 0
			for _, it := range g.Items {
				if it.Kind == world.CloseMG && (!ended || it.T <= end) {
					closed = true
				}
				if it.Fault == "senderr" {
					sendErrs++
				}
			}
			if checked == 0 {
				checked = 1
				if !ended {
					vs = append(vs, monitors.V{Prop: "C13", Sig: "session-does-not-end|after-send-error", What: "a gateway->client write failed; the session was still running 130 s (virtual) after the following " + fmt.Sprint(g.Extra["cause"])})
				} else if !closed {
					vs = append(vs, monitors.V{Prop: "C13", Sig: "broker-connection-left-open|after-send-error", What: "handler returned after a failed gateway->client write without closing the broker connection"})
				}
			}
			r.Count("antecedents_checked", checked)
			r.Count("failed_sends_observed", sendErrs)
			for _, v := range monitors.Dedup(vs) {
				c.Violation("send-fault|"+v.Sig, v.What, map[string]interface{}{"witness": g.witness(100)})
			}
			r.Observe("send-fault-outcome", fmt.Sprintf("failed=%v ended-before-cause=%v", sendErrs > 0, checked == 1 && ended))
			c.Key("%s|%d", g.Desc, sendErrs)
			return
		}
		if c.I >= nTerm*reps+nDial {
			runShutdownSockets(c, c.I-nTerm*reps-nDial)
			return
		}
		if c.I >= nTerm*reps {
			runDialFailure(c, c.I-nTerm*reps)
			return
		}
		g := wlTermination.Run(t, c, c.I%nTerm, c.Rand())
		vs, checked := judgeC13(g)
		r.Count("antecedents_checked", checked)
		for _, v := range monitors.Dedup(vs) {
			c.Violation(v.Sig, v.What, map[string]interface{}{"witness": g.witness(100)})
		}
		if checked > 0 {
			c.Key("%s", g.Desc)
		}
		if c.I == 50 {
			r.Sample(map[string]interface{}{"case": g.Desc, "script": g.Script, "trace_tail": world.Strings(g.Evs[max0(len(g.Evs)-12):], 0)})
		}
	})
	r.Finish(fmt.Sprintf("%d cases = 7 base histories (connect+traffic; will+auth; broker publishes QoS 0/1/2 in flight incl. pending registration with a client that does not acknowledge; client publish/subscribe unacknowledged by the broker; asleep with sleep pinger; asleep-short then awake then reconnected; half-open connect) x every step index x 9 termination causes (gateway shutdown, client plain DISCONNECT, broker closes, broker connection reset (read error, not EOF), broker sends reserved-type garbage, broker sends a SUBSCRIBE, undecodable datagram, truncated datagram, unhandled packet type), each followed by 130 virtual seconds; + 3 real-socket cases of the dial-failure path (closed loopback port) + 3 real-socket cases of whole-gateway shutdown (ListenAndServe on loopback UDP with 2/4/6 peers, every second one asleep; context cancelled: active peers get DISCONNECT, sleeping ones nothing, ListenAndServe returns, no session goroutine is left) + send-fault cases: every base history (but the stalled one) with the next / every later gateway->client datagram write (or gateway->broker write) failing from every step index on, then 2 s, then {shutdown, broker close, client DISCONNECT}: the session must still end (by the failed send or by the cause) with the broker connection closed and nothing left behind. Oracle: handler returns within one 100 ms poll interval of the cause; broker link closed by then; DISCONNECT to the client exactly when the wire-derived client state is active/awake and the client did not disconnect itself (the phase after a wake-up's PINGRESP is don't-care); at quiescence after teardown no goroutine of the bubble (resp. of the process, for the dial cases) is inside bisquitt code. exhaustive for the stated case list.", nTerm), nil)
}

func max0(a int) int {
	if a < 0 {
		return 0
	}
	return a
}
