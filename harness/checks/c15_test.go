package checks

import (
	"bytes"
	"context"
	"fmt"
	"math/rand"
	"net"
	"sort"
	"strings"
	"sync"
	"testing"
	"testing/synctest"
	"time"

	"github.com/energomonitor/bisquitt/gateway"
	"github.com/energomonitor/bisquitt/util"

	"verifharness/mqttref"
	"verifharness/rt"
	"verifharness/snref"
	"verifharness/world"
)

// c15scriptA is the observed session's script: static (no adaptive choices), so that its
// trace is a function of the gateway's behaviour towards this session only.
func c15scriptA(rng *rand.Rand, tag string, auth bool) []Step {
	id := []string{"cl", "a"}[rng.Intn(2)]
	will := rng.Intn(3) == 0 || (auth && rng.Intn(2) == 0)
	st := []Step{snStep(snref.Connect(id, 30, will, true))}
	if auth {
		st = append(st, snStep(snref.AuthPlain("user-"+tag, []byte("secret-"+tag))))
	}
	if will {
		// the will dialogue as separate steps (the observed peer does not answer the requests by
		// itself): other sessions act between this session's AUTH and its MQTT CONNECT
		st = append(st, snStep(snref.WillTopic("will/"+tag, 1, false)), snStep(snref.WillMsg([]byte("bye-"+tag))))
	}
	mid := uint16(0)
	next := func() uint16 { mid++; return mid }
	n := 6 + rng.Intn(14)
	tagN := 0
	pl := func() []byte { tagN++; return []byte(fmt.Sprintf("%s-%d", tag, tagN)) }
	for i := 0; i < n; i++ {
		switch rng.Intn(12) {
		case 0:
			st = append(st, snStep(snref.Register(0, next(), []string{"t/a", "t/b", "shared/name"}[rng.Intn(3)])))
		case 1:
			st = append(st, snStep(snref.SubscribeName(next(), uint8(rng.Intn(3)), []string{"t/a", "shared/name", "#", "t/+"}[rng.Intn(4)])))
		case 2:
			st = append(st, snStep(snref.SubscribeID(next(), 1, 1, uint16(1+rng.Intn(3)))))
		case 3, 4:
			st = append(st, snStep(snref.Publish(2, snref.ShortID("ab"), next(), uint8(rng.Intn(3)), false, false, pl())))
		case 5:
			st = append(st, snStep(snref.Publish(1, uint16(1+rng.Intn(3)), next(), uint8(rng.Intn(2)), false, false, pl())))
		case 6:
			// registered topic IDs are handed out from 1 upwards (skipping predefined ones): use low numbers
			st = append(st, snStep(snref.Publish(0, uint16(1+rng.Intn(6)), next(), uint8(rng.Intn(2)), false, false, pl())))
		case 7:
			st = append(st, pubStep([]string{"ab", "t/a", "pre/one", "new/"+tag, "shared/name"}[rng.Intn(5)], byte(rng.Intn(3)), false, string(pl())))
		case 8:
			st = append(st, snStep(snref.Pingreq("")))
		case 9:
			st = append(st, snStep(snref.Sleep(uint16(2+rng.Intn(5)))), advStep(time.Second), pubStep("ab", byte(rng.Intn(2)), false, string(pl())), advStep(time.Second), snStep(snref.Pingreq(id)), snStep(snref.Connect(id, 30, false, false)))
		case 10:
			st = append(st, advStep([]time.Duration{100 * time.Millisecond, time.Second, 11 * time.Second}[rng.Intn(3)]))
		case 11:
			st = append(st, snStep(snref.UnsubscribeName(next(), "t/a")))
		}
	}
	switch rng.Intn(3) {
	case 0:
		st = append(st, snStep(snref.Disconnect()))
	case 1:
		st = append(st, advStep(40*time.Second))
	}
	return st
}

// c15other builds the script of a disturbing session: no time advances (only the observed
// session's script moves the clock), everything else goes, including the observed client's ID.
func c15other(rng *rand.Rand, k int) []Step {
	id := []string{"cl", "a", "other", "x" + fmt.Sprint(k)}[rng.Intn(4)]
	var st []Step
	if rng.Intn(8) > 0 {
		st = append(st, snStep(snref.Connect(id, uint16(1+rng.Intn(100)), rng.Intn(3) == 0, rng.Intn(2) == 0)))
		if rng.Intn(2) == 0 {
			st = append(st, snStep(snref.AuthPlain("user"+fmt.Sprint(k), []byte("other-password-"+strings.Repeat("x", rng.Intn(12))))))
		}
	}
	mid := uint16(0)
	next := func() uint16 { mid++; return mid }
	for i := 0; i < 4+rng.Intn(30); i++ {
		switch rng.Intn(11) {
		case 0:
			st = append(st, snStep(snref.Register(0, next(), []string{"t/a", "t/b", "shared/name", "o/" + fmt.Sprint(k)}[rng.Intn(4)])))
		case 1:
			st = append(st, snStep(snref.SubscribeName(next(), uint8(rng.Intn(3)), []string{"t/a", "shared/name", "#", "o/#"}[rng.Intn(4)])))
		case 2:
			st = append(st, snStep(snref.Publish(uint8(rng.Intn(3)), uint16(1+rng.Intn(6)), next(), uint8(rng.Intn(4)), false, rng.Intn(2) == 0, []byte(fmt.Sprintf("other%d-%d", k, i)))))
		case 3:
			st = append(st, pubStep([]string{"ab", "t/a", "pre/one", "o/new", "shared/name"}[rng.Intn(5)], byte(rng.Intn(3)), false, fmt.Sprintf("obroker%d-%d", k, i)))
		case 4:
			st = append(st, snStep(c25pkt(rng, snref.AllTypes)))
		case 5:
			st = append(st, Step{Kind: "raw", Raw: randBytes(rng, 1+rng.Intn(12))}) // most likely undecodable: ends that session
		case 6:
			st = append(st, snStep(snref.Sleep(uint16(1+rng.Intn(100)))))
		case 7:
			st = append(st, snStep(snref.Pingreq(id)))
		case 8:
			st = append(st, causeStep([]string{"broker-close", "broker-garbage", "shutdown", "sn-garbage"}[rng.Intn(4)]))
		case 9:
			// a burst of registrations: moves this session's topic-ID counter far ahead
			for j := 0; j < 20; j++ {
				st = append(st, snStep(snref.SubscribeName(next(), 0, fmt.Sprintf("burst/%d/%d", k, j))))
			}
		case 10:
			st = append(st, snStep(snref.Disconnect()))
		}
	}
	return st
}

type c15ev struct {
	kind string
	t    time.Duration
	b    string
}

// c15run runs the observed script (session 0) alone or together with others; returns session 0's own trace.
func c15run(t *testing.T, cfg world.GWConfig, scriptA []Step, others [][]Step, orderSeed int64) (own []c15ev, all []world.Ev) {
	bubble(t, func() {
		w := world.New(cfg)
		// The broker closes 1 ms after a DISCONNECT: when it closes at once, whether the gateway still gets
		// its DISCONNECT reply out to the client is a race inside that one session (seen 5 times in
		// 20000 cases) - no business of this property, but it makes the baseline trace ambiguous.
		b := world.NewBroker(world.BrokerCfg{FirstID: 30000, Route: true, CloseDelay: time.Millisecond})
		sA := w.NewSession(peerHandler(PeerOpts{NoWillReply: true}), b.Handler())
		var ss []*world.Session
		for range others {
			ss = append(ss, w.NewSession(peerHandler(PeerOpts{WillTopic: "w/o", WillMsg: []byte("o")}), b.Handler()))
		}
		synctest.Wait()
		rng := rand.New(rand.NewSource(orderSeed))
		pos := make([]int, len(others))
		ai := 0
		for ai < len(scriptA) {
			// some steps of the others between two steps of the observed session
			for k := rng.Intn(4); k > 0 && len(others) > 0; k-- {
				j := rng.Intn(len(others))
				if pos[j] < len(others[j]) {
					execSteps(w, ss[j], b, others[j][pos[j]:pos[j]+1])
					pos[j]++
				}
			}
			execSteps(w, sA, b, scriptA[ai:ai+1])
			ai++
		}
		time.Sleep(2 * time.Second)
		synctest.Wait()
		w.Tr.Add(0, world.Note, nil, "teardown")
		w.Finish()
		synctest.Wait()
		all = w.Tr.Events()
		w.WaitHarness()
	})
	for _, e := range all {
		if e.Kind == world.Note && e.Note == "teardown" {
			break
		}
		if e.Sess == 0 && (e.Kind == world.SNIn || e.Kind == world.SNOut || e.Kind == world.MQIn || e.Kind == world.MQOut || e.Kind == world.End || e.Kind == world.CloseMG || e.Kind == world.CloseSG || e.Kind == world.Dial) {
			own = append(own, c15ev{e.Kind, e.T, string(e.B)})
		}
	}
	return
}

// c15canon renders the observed session's trace as one sequence per link direction (plus the
// dial/close/end events): the order of events on different links at one virtual instant is
// scheduling, not behaviour. MQTT byte runs of one direction at one instant are coalesced
// (TCP segmentation is not behaviour either).
func c15canon(evs []c15ev) []string {
	by := map[string][]c15ev{}
	var kinds []string
	for _, e := range evs {
		if _, ok := by[e.kind]; !ok {
			kinds = append(kinds, e.kind)
		}
		by[e.kind] = append(by[e.kind], e)
	}
	sort.Strings(kinds)
	var out []string
	for _, k := range kinds {
		l := by[k]
		for i := 0; i < len(l); {
			// everything of this direction at one instant, as a sorted multiset of packets
			j := i
			var units []string
			var stream string
			for j < len(l) && l[j].t == l[i].t {
				if k == world.MQIn || k == world.MQOut {
					stream += l[j].b
				} else {
					units = append(units, fmt.Sprintf("%x", l[j].b))
				}
				j++
			}
			if stream != "" {
				ps, rest, _ := mqttref.ParseAll([]byte(stream))
				for _, p := range ps {
					units = append(units, fmt.Sprintf("%x", p.Raw))
				}
				if len(rest) > 0 {
					units = append(units, fmt.Sprintf("tail:%x", rest))
				}
			}
			sort.Strings(units)
			for _, u := range units {
				out = append(out, fmt.Sprintf("%s %v %s", k, l[i].t, u))
			}
			i = j
		}
	}
	return out
}

func c15bubbleCase(t *testing.T, r *rt.Run, c *rt.Case) {
	rng := c.Rand()
	tag := fmt.Sprintf("A%d", c.I)
	cfg := world.GWConfig{Predefined: stdPredefined(), RetryDelay: 10 * time.Second, RetryCount: 1}
	cfg.Auth = rng.Intn(3) == 0
	if rng.Intn(3) == 0 || (cfg.Auth && rng.Intn(3) > 0) {
		// default broker credentials of the gateway; a long password, so that a session which
		// (wrongly) wrote its own into this shared buffer would not have to reallocate
		cfg.User, cfg.Password = strp("gwuser"), bytes.Repeat([]byte("G"), 40)
	}
	scriptA := c15scriptA(rng, tag, cfg.Auth)
	nOthers := 1 + rng.Intn(7)
	var others [][]Step
	for k := 0; k < nOthers; k++ {
		others = append(others, c15other(rng, k))
	}
	var sa []string
	for _, s := range scriptA {
		sa = append(sa, s.String())
	}
	c.Desc = fmt.Sprintf("observed session: %s | with %d other sessions", strings.Join(sa, "; "), nOthers)
	key := func(evs []c15ev) string { return strings.Join(c15canon(evs), "\n") }
	orderSeed := int64(c.I) + r.Seed*1000003
	solo1, _ := c15run(t, cfg, scriptA, nil, 1)
	solo2, _ := c15run(t, cfg, scriptA, nil, 2)
	crowd, all := c15run(t, cfg, scriptA, others, orderSeed)
	a1 := c15canon(solo1)
	r.Count("observed_session_events", len(a1))
	r.Count("other_sessions", nOthers)
	soloSet := map[string]bool{key(solo1): true, key(solo2): true}
	crowdSet := map[string]bool{key(crowd): true}
	firstDiff := func(x, y []string) (int, string, string) {
		i := 0
		for i < len(x) && i < len(y) && x[i] == y[i] {
			i++
		}
		p, q := "<end>", "<end>"
		if i < len(x) {
			p = cutS(x[i], 140)
		}
		if i < len(y) {
			q = cutS(y[i], 140)
		}
		return i, p, q
	}
	if len(soloSet) > 1 || !soloSet[key(crowd)] {
		// Something differs. A race inside the observed session itself (two legitimate variants of
		// its own trace) must not be mistaken for interference, so the experiment is repeated:
		// six more solo runs and three more runs beside the others.
		r.Count("cases_repeated_after_a_difference", 1)
		var solos [][]c15ev
		solos = append(solos, solo1, solo2)
		for k := 3; k <= 8; k++ {
			sk, _ := c15run(t, cfg, scriptA, nil, int64(k))
			solos = append(solos, sk)
			soloSet[key(sk)] = true
		}
		for k := 0; k < 3; k++ {
			ck, _ := c15run(t, cfg, scriptA, others, orderSeed)
			crowdSet[key(ck)] = true
		}
		switch {
		case len(soloSet) == len(solos):
			// all eight solo runs pairwise different: not a two-way race but a drift - state that
			// outlives sessions (the cases of this check run one after the other, bisquitt uses no randomness)
			i, x, y := firstDiff(a1, c15canon(solo2))
			c.Violation("session-influenced|by-earlier-sessions|"+c15class(x, y), fmt.Sprintf("eight solo runs of the same script against fresh Gateway values are all different (first two: event %d: %s vs %s): state left by earlier sessions changes what a session sends", i, x, y),
				map[string]interface{}{"observed_script": sa, "first_run": a1, "second_run": c15canon(solo2)})
		case len(soloSet) > 1:
			overlap := false
			for k := range crowdSet {
				if soloSet[k] {
					overlap = true
				}
			}
			if overlap || len(soloSet) > 1 {
				c.Inconclusive(fmt.Sprintf("the observed session's own trace has %d variants in 8 solo runs (a race inside that session): no baseline", len(soloSet)))
			}
		default:
			// one solo variant; every run beside the others differs from it?
			disjoint := true
			for k := range crowdSet {
				if soloSet[k] {
					disjoint = false
				}
			}
			if disjoint {
				a3 := c15canon(crowd)
				i, alone, with := firstDiff(a1, a3)
				var os []string
				for k, o := range others {
					var x []string
					for _, s := range o {
						x = append(x, s.String())
					}
					os = append(os, fmt.Sprintf("other %d: %s", k+1, cutS(strings.Join(x, "; "), 1500)))
				}
				c.Violation("session-influenced|"+c15class(alone, with), fmt.Sprintf("the observed session's traffic differs when other sessions run beside it (8 identical solo runs, %d runs beside the others, none equal to the solo trace): event %d alone = %s, with others = %s", 1+3, i, alone, with),
					map[string]interface{}{"observed_script": sa, "others": os, "alone": a1, "with_others": a3, "trace": world.Strings(all, 300)})
			} else {
				c.Inconclusive("beside the other sessions the observed trace has several variants, one of them the solo trace (a race inside that session)")
			}
		}
	}
	// nothing of the observed session may show up in another session's traffic
	for _, e := range all {
		if e.Sess != 0 && len(e.B) > 0 && (bytes.Contains(e.B, []byte(tag+"-")) || bytes.Contains(e.B, []byte("-"+tag))) {
			c.Violation("payload-leaked-to-other-session|"+e.Kind, fmt.Sprintf("data of the observed session appeared on session %d's %s link", e.Sess, e.Kind), map[string]interface{}{"event": e.String(), "observed_script": sa})
			break
		}
	}
	c.Key("%s|others=%d", c.Desc, nOthers)
	if c.I == 4 {
		r.Sample(map[string]interface{}{"observed_script": sa, "other_sessions": nOthers, "observed_trace_head": a1[:minInt(len(a1), 12)]})
	}
}

func minInt(a, b int) int {
	if a < b {
		return a
	}
	return b
}

func c15class(alone, with string) string {
	f := func(s string) string {
		p := strings.Fields(s)
		if len(p) >= 1 {
			return p[0]
		}
		return s
	}
	return f(alone) + "->" + f(with)
}

// ---------------------------------------------------------------- real sockets: ListenAndServe

var c15sockMu sync.Mutex

func c15socketCase(t *testing.T, r *rt.Run, c *rt.Case, variant int) {
	c15sockMu.Lock()
	defer c15sockMu.Unlock()
	nPeers := []int{2, 6, 8}[variant%3] // even: the peer accepted last is one that stays
	c.Desc = fmt.Sprintf("real sockets: Gateway.ListenAndServe on loopback UDP, fake TCP broker, %d peers", nPeers)
	ln, err := net.Listen("tcp", "127.0.0.1:0")
	if err != nil {
		c.Inconclusive("no loopback TCP: " + err.Error())
		return
	}
	defer ln.Close()
	type bconn struct {
		mu      sync.Mutex
		ids     []string
		payload []string
		conn    net.Conn
	}
	var bmu sync.Mutex
	var conns []*bconn
	go func() {
		for {
			cn, err := ln.Accept()
			if err != nil {
				return
			}
			bc := &bconn{conn: cn}
			bmu.Lock()
			conns = append(conns, bc)
			bmu.Unlock()
			go func() {
				var acc []byte
				buf := make([]byte, 65536)
				for {
					n, err := cn.Read(buf)
					if err != nil {
						return
					}
					acc = append(acc, buf[:n]...)
					for {
						p, k, e := mqttref.Next(acc)
						if e != nil {
							break
						}
						acc = acc[k:]
						switch p.Type {
						case mqttref.CONNECT:
							bc.mu.Lock()
							bc.ids = append(bc.ids, p.ClientID)
							bc.mu.Unlock()
							cn.Write(mqttref.EncConnack(false, 0))
						case mqttref.SUBSCRIBE:
							cn.Write(mqttref.EncSuback(p.MsgID, p.QoSs...))
						case mqttref.PUBLISH:
							bc.mu.Lock()
							bc.payload = append(bc.payload, string(p.Payload))
							id := ""
							if len(bc.ids) > 0 {
								id = bc.ids[0]
							}
							bc.mu.Unlock()
							if p.QoS == 1 {
								cn.Write(mqttref.EncAck(mqttref.PUBACK, p.MsgID))
							}
							// the broker answers on this connection with a message for this client only
							cn.Write(mqttref.EncPublish("ab", 0, 0, false, false, []byte("for-"+id)))
						case mqttref.PINGREQ:
							cn.Write(mqttref.EncPingresp())
						}
					}
				}
			}()
		}
	}()
	// free UDP port
	gwPort, err := freeUDPPort()
	if err != nil {
		c.Inconclusive("no loopback UDP: " + err.Error())
		return
	}
	gwAddr := fmt.Sprintf("127.0.0.1:%d", gwPort)
	gw := gateway.NewGateway(util.NoOpLogger{}, &gateway.GatewayConfig{MqttBrokerAddress: ln.Addr().(*net.TCPAddr), MqttConnectionTimeout: 2 * time.Second,
		PredefinedTopics: stdPredefined(), RetryDelay: time.Second, RetryCount: 1})
	ctx, cancel := context.WithCancel(context.Background())
	served := make(chan error, 1)
	go func() { served <- gw.ListenAndServe(ctx, gwAddr) }()
	defer func() {
		cancel()
		select {
		case <-served:
		case <-time.After(3 * time.Second):
		}
	}()
	time.Sleep(100 * time.Millisecond)
	type peerRes struct {
		got  []*snref.Pkt
		errs []string
		dead []string
	}
	res := make([]peerRes, nPeers)
	var wg, phase1 sync.WaitGroup
	phase1.Add(nPeers)
	for i := 0; i < nPeers; i++ {
		wg.Add(1)
		go func(i int) {
			defer wg.Done()
			conn, err := net.Dial("udp", gwAddr)
			if err != nil {
				res[i].errs = append(res[i].errs, err.Error())
				return
			}
			defer conn.Close()
			id := fmt.Sprintf("peer%d", i)
			read := func(want byte) *snref.Pkt {
				buf := make([]byte, 2048)
				for k := 0; k < 6; k++ {
					conn.SetReadDeadline(time.Now().Add(5 * time.Second)) // generous: a loaded machine is not a verdict
					n, err := conn.Read(buf)
					if err != nil {
						return nil
					}
					p, _ := snref.ParseLoose(append([]byte(nil), buf[:n]...))
					if p != nil {
						res[i].got = append(res[i].got, p)
						if p.Type == want {
							return p
						}
					}
				}
				return nil
			}
			time.Sleep(time.Duration(i) * 25 * time.Millisecond) // peers are accepted in index order
			conn.Write(snref.Connect(id, 30, false, true).Encode())
			if read(snref.CONNACK) == nil {
				res[i].errs = append(res[i].errs, "no CONNACK")
				phase1.Done()
				return
			}
			conn.Write(snref.SubscribeName(uint16(100+i), 0, "ab").Encode())
			if read(snref.SUBACK) == nil {
				res[i].errs = append(res[i].errs, "no SUBACK")
				phase1.Done()
				return
			}
			conn.Write(snref.Publish(2, snref.ShortID("zz"), uint16(200+i), 1, false, false, []byte("from-"+id)).Encode())
			read(snref.PUBLISH)
			read(snref.PUBACK)
			// staged endings: the even peers leave one after the other, every other peer
			// must still be served after each departure
			phase1.Done()
			phase1.Wait()
			if i%2 == 0 {
				time.Sleep(time.Duration(i) * 30 * time.Millisecond)
				conn.Write(snref.Disconnect().Encode())
				read(snref.DISCONNECT)
				return
			}
			for k := 0; k < 4; k++ {
				time.Sleep(80 * time.Millisecond)
				conn.Write(snref.Pingreq("").Encode())
				if read(snref.PINGRESP) == nil {
					res[i].dead = append(res[i].dead, fmt.Sprintf("no PINGRESP for ping %d (other peers had disconnected meanwhile)", k))
					return
				}
			}
		}(i)
	}
	wg.Wait()
	time.Sleep(200 * time.Millisecond)
	bmu.Lock()
	cs := append([]*bconn(nil), conns...)
	bmu.Unlock()
	for i := range res {
		if len(res[i].errs) > 0 {
			c.Inconclusive(fmt.Sprintf("peer %d: %v (real-time watchdog)", i, res[i].errs))
			return
		}
	}
	witness := map[string]interface{}{"peers": nPeers, "broker_connections": len(cs)}
	for i := range res {
		if len(res[i].dead) > 0 {
			c.Violation("sockets|session-killed-by-another-peer", fmt.Sprintf("peer %d: %v", i, res[i].dead), witness)
		}
	}
	if len(cs) != nPeers {
		c.Violation("sockets|broker-connection-count", fmt.Sprintf("%d MQTT-SN peer addresses produced %d broker connections", nPeers, len(cs)), witness)
	}
	seen := map[string]bool{}
	for k, bc := range cs {
		bc.mu.Lock()
		ids, pls := append([]string(nil), bc.ids...), append([]string(nil), bc.payload...)
		bc.mu.Unlock()
		if len(ids) != 1 {
			c.Violation("sockets|connects-per-connection", fmt.Sprintf("broker connection %d carried %d CONNECTs: %v", k, len(ids), ids), witness)
			continue
		}
		if seen[ids[0]] {
			c.Violation("sockets|client-id-on-two-connections", fmt.Sprintf("client ID %s appeared on two broker connections", ids[0]), witness)
		}
		seen[ids[0]] = true
		for _, p := range pls {
			if p != "from-"+ids[0] {
				c.Violation("sockets|foreign-publish-on-connection", fmt.Sprintf("the broker connection of %s carried the message %q", ids[0], p), witness)
			}
		}
	}
	for i := range res {
		id := fmt.Sprintf("peer%d", i)
		for _, p := range res[i].got {
			switch p.Type {
			case snref.SUBACK:
				if p.MsgID != uint16(100+i) {
					c.Violation("sockets|foreign-ack", fmt.Sprintf("%s received SUBACK(%d) which belongs to another peer", id, p.MsgID), witness)
				}
			case snref.PUBACK:
				if p.MsgID != uint16(200+i) {
					c.Violation("sockets|foreign-ack", fmt.Sprintf("%s received PUBACK(%d) which belongs to another peer", id, p.MsgID), witness)
				}
			case snref.PUBLISH:
				if string(p.Data) != "for-"+id {
					c.Violation("sockets|foreign-message", fmt.Sprintf("%s received the message %q", id, p.Data), witness)
				}
			}
		}
	}
	r.Count("socket_peers", nPeers)
	c.Key("sockets|%d", nPeers)
}

func TestC15(t *testing.T) {
	r := rt.Start(t, "C15")
	nB := r.N(500, 10000)
	nS := 3
	// one worker: the solo runs of a case must not overlap with sessions of other cases
	r.Each(t, nB+nS, 1, nil, func(t *testing.T, c *rt.Case) {
		if c.I >= nB {
			c15socketCase(t, r, c, c.I-nB)
			return
		}
		c15bubbleCase(t, r, c)
	})
	r.Finish("non-interference by differential replay: a static lock-step script (CONNECT, REGISTER/SUBSCRIBE/PUBLISH with registered, predefined and short IDs, broker messages, PINGREQ, a sleep cycle, time advances, DISCONNECT) is run against the real gateway session handler alone (twice, in fresh worlds, cases running one after the other) and beside the others; on any difference the experiment is repeated (8 solo runs, 4 runs beside the others): eight pairwise different solo traces mean drift caused by state that outlives sessions (reported); one solo variant that no run beside the others reproduces means interference (reported); several variants of the session's own trace mean a race inside that session (inconclusive) and then beside 1-7 other sessions of the same Gateway value (shared handler configuration and predefined-topic map) that run random scripts without time advances: same or different client IDs, AUTH packets, registrations of the same names, bursts of 20 subscriptions, random packets of all types, undecodable datagrams, sleep requests, broker close/garbage, shutdown of that session, DISCONNECT. Oracle: the observed session's own events are identical - one sequence per link direction plus the dial/close/end events, with bytes and virtual timestamps; packets of one direction at one virtual instant compared as a multiset, and none of its payloads appears on another session's links. Plus 3 real-socket cases: Gateway.ListenAndServe on loopback UDP with 2/6/8 peers (connecting one after the other) and a fake TCP broker: one broker connection per peer address, each carrying exactly that peer's client ID and messages; every peer receives only its own acknowledgements and the message the broker sent on its connection; then the even peers disconnect one after the other while the odd ones go on pinging and must be answered. In a third of the worlds authentication is on: the observed session sends its own credentials and a will in separate steps, the others send theirs in between.", nil)
}
