package checks

import (
	"bytes"
	"fmt"
	"testing"
	"testing/synctest"
	"time"

	"github.com/energomonitor/bisquitt/client"

	"verifharness/memnet"
	"verifharness/mqttref"
	"verifharness/rt"
	"verifharness/snref"
	"verifharness/world"
)

// c16flow: one broker-initiated delivery to the real client through the real gateway.
type c16flow struct {
	name   string
	qos    byte
	filter string // what the client subscribes to
	topic  string // what the broker publishes on
	phases [][2]byte
}

func c16flows() []c16flow {
	reg := [2]byte{snref.REGISTER, snref.REGACK}
	p1 := [2]byte{snref.PUBLISH, snref.PUBACK}
	p2a := [2]byte{snref.PUBLISH, snref.PUBREC}
	p2b := [2]byte{snref.PUBREL, snref.PUBCOMP}
	return []c16flow{
		{"QoS1-known-topic", 1, "t/known", "t/known", [][2]byte{p1}},
		{"QoS2-known-topic", 2, "t/known", "t/known", [][2]byte{p2a, p2b}},
		{"QoS1-needs-REGISTER", 1, "t/#", "t/new", [][2]byte{reg, p1}},
		{"QoS2-needs-REGISTER", 2, "t/#", "t/new", [][2]byte{reg, p2a, p2b}},
		{"QoS1-short-topic", 1, "ab", "ab", [][2]byte{p1}},
		{"QoS2-short-topic", 2, "+", "ab", [][2]byte{p2a, p2b}},
	}
}

// c16sim is the reference simulation: which phase (if any) exhausts the gateway's retry budget.
// Returns the index of the failing phase or -1.
func c16sim(fl c16flow, fs []fault, rc int) int {
	has := func(dir string, typ byte, n int, what memnet.Action) bool {
		for _, f := range fs {
			if f.dir == dir && f.typ == typ && f.n == n && f.what == what {
				return true
			}
		}
		return false
	}
	req, resp := map[byte]int{}, map[byte]int{}
	for pi, ph := range fl.phases {
		ok := false
		for tx := 0; tx <= rc && !ok; tx++ {
			n := req[ph[0]]
			req[ph[0]]++
			if has(world.SNOut, ph[0], n, memnet.Drop) {
				continue
			}
			copies := 1
			if has(world.SNOut, ph[0], n, memnet.Dup) {
				copies = 2
			}
			for k := 0; k < copies; k++ {
				m := resp[ph[1]]
				resp[ph[1]]++
				if !has(world.SNIn, ph[1], m, memnet.Drop) {
					ok = true
				}
			}
		}
		if !ok {
			return pi
		}
	}
	return -1
}

func TestC16(t *testing.T) {
	r := rt.Start(t, "C16")
	flows := c16flows()
	type cs struct {
		flow, rc int
		fs       []fault
	}
	var cases []cs
	rcs := []int{1, 2}
	if r.Thorough() {
		rcs = []int{0, 1, 2, 4}
	}
	for fi, fl := range flows {
		for _, rc := range rcs {
			var singles []fault
			for _, ph := range fl.phases {
				for n := 0; n < rc+2; n++ {
					singles = append(singles, fault{world.SNOut, ph[0], n, memnet.Drop}, fault{world.SNIn, ph[1], n, memnet.Drop})
				}
				singles = append(singles, fault{world.SNOut, ph[0], 0, memnet.Dup}, fault{world.SNOut, ph[0], 1, memnet.Dup},
					fault{world.SNIn, ph[1], 0, memnet.Dup}, fault{world.SNIn, ph[1], 1, memnet.Dup})
			}
			cases = append(cases, cs{fi, rc, nil})
			for _, f := range singles {
				cases = append(cases, cs{fi, rc, []fault{f}})
			}
			if rc <= 2 {
				for i := range singles {
					for j := i + 1; j < len(singles); j++ {
						cases = append(cases, cs{fi, rc, []fault{singles[i], singles[j]}})
					}
				}
			}
			// runs of k consecutive losses of one datagram type, k = 1..rc+1, in either direction
			for _, ph := range fl.phases {
				for k := 1; k <= rc+1; k++ {
					var a, b []fault
					for n := 0; n < k; n++ {
						a = append(a, fault{world.SNOut, ph[0], n, memnet.Drop})
						b = append(b, fault{world.SNIn, ph[1], n, memnet.Drop})
					}
					cases = append(cases, cs{fi, rc, a}, cs{fi, rc, b})
				}
			}
		}
	}
	if !r.Thorough() {
		var sub []cs
		for i, c := range cases {
			if len(c.fs) != 2 || i%4 == int(r.Seed%4) {
				sub = append(sub, c)
			}
		}
		cases = sub
	}
	const rd = 10 * time.Second
	// ---- second front: two broker messages for the same new topic, the second one arriving while the
	// registration of the first is still being retried (its REGISTER or REGACK was lost)
	type cs2 struct {
		q1, q2 byte
		gap    time.Duration
		fs     []fault
	}
	var cases2 []cs2
	for _, q1 := range []byte{1, 2} {
		for _, q2 := range []byte{0, 1, 2} {
			for _, gap := range []time.Duration{0, time.Second, 9 * time.Second, 11 * time.Second} {
				for _, fs := range [][]fault{nil, {{world.SNOut, snref.REGISTER, 0, memnet.Drop}}, {{world.SNIn, snref.REGACK, 0, memnet.Drop}},
					{{world.SNOut, snref.REGISTER, 0, memnet.Drop}, {world.SNOut, snref.REGISTER, 1, memnet.Drop}}, {{world.SNOut, snref.REGISTER, 0, memnet.Dup}}} {
					cases2 = append(cases2, cs2{q1, q2, gap, fs})
				}
			}
		}
	}
	n1 := len(cases)
	r.Each(t, n1+len(cases2), 0, nil, func(t *testing.T, c *rt.Case) {
		if c.I >= n1 {
			k := cases2[c.I-n1]
			c.Desc = fmt.Sprintf("two messages on one new topic: QoS %d, then QoS %d %v later; faults=%v (RetryCount 3)", k.q1, k.q2, k.gap, k.fs)
			pl1, pl2 := []byte(fmt.Sprintf("c16-%d-first", c.I)), []byte(fmt.Sprintf("c16-%d-second", c.I))
			var evs []world.Ev
			setup := ""
			var cbs1, cbs2 int
			var clientDown bool
			bubble(t, func() {
				f := newFullWorld(world.GWConfig{RetryDelay: rd, RetryCount: 3}, world.BrokerCfg{FirstID: 1}, c16ClientCfg())
				if err := f.Cl.Connect(); err != nil {
					setup = "connect: " + err.Error()
				} else if err := f.Cl.Subscribe("t/#", 2, cbRecorder(f.W.Tr, 0, "t/#")); err != nil {
					setup = "subscribe: " + err.Error()
				}
				synctest.Wait()
				if setup == "" {
					f.W.Tr.Add(0, world.Note, nil, "faults armed")
					f.S.SetPlan(planOf(k.fs))
					f.B.Publish(f.S, "t/new", k.q1, false, pl1)
					if k.gap > 0 {
						time.Sleep(k.gap)
					}
					f.B.Publish(f.S, "t/new", k.q2, false, pl2)
					time.Sleep(12 * rd)
					synctest.Wait()
					f.S.SetPlan(nil)
					// the client must still be usable
					if err := f.Cl.Ping(); err != nil {
						clientDown = true
					}
					synctest.Wait()
				}
				evs = f.Close()
			})
			if setup != "" {
				c.Inconclusive("setup failed: " + setup)
				return
			}
			ended := false
			for _, e := range evs {
				if e.Kind == world.Note && e.Note == "teardown" {
					break
				}
				switch e.Kind {
				case world.End:
					ended = true
				case world.CB:
					if bytes.Equal(e.B, pl1) {
						cbs1++
					}
					if bytes.Equal(e.B, pl2) {
						cbs2++
					}
				}
			}
			witness := map[string]interface{}{"case": c.Desc, "trace": world.Strings(evs, 90)}
			if ended || clientDown {
				c.Violation(fmt.Sprintf("two-messages|session-or-client-down|q%d-q%d", k.q1, k.q2), fmt.Sprintf("%s: gateway session ended=%v, client unusable afterwards=%v", c.Desc, ended, clientDown), witness)
			}
			// every plan here is within the budget of RetryCount 3
			if cbs1 < 1 || (k.q1 == 2 && cbs1 != 1) {
				c.Violation(fmt.Sprintf("two-messages|first-handler-count|q%d-q%d|%s", k.q1, k.q2, faultShape(k.fs)), fmt.Sprintf("%s: the handler ran %d times for the first message", c.Desc, cbs1), witness)
			}
			if (k.q2 > 0 && cbs2 < 1) || (k.q2 == 2 && cbs2 != 1) {
				c.Violation(fmt.Sprintf("two-messages|second-handler-count|q%d-q%d|%s", k.q1, k.q2, faultShape(k.fs)), fmt.Sprintf("%s: the handler ran %d times for the second message", c.Desc, cbs2), witness)
			}
			r.Observe("two-message outcome", fmt.Sprintf("q%d then q%d gap %v %s: handler runs %d / %d", k.q1, k.q2, k.gap, faultShape(k.fs), cbs1, cbs2))
			r.Count("handler_runs", cbs1+cbs2)
			c.Key("two|%d|%d|%v|%v", k.q1, k.q2, k.gap, k.fs)
			return
		}
		cse := cases[c.I]
		fl := flows[cse.flow]
		c.Desc = fmt.Sprintf("%s rc=%d faults=%v", fl.name, cse.rc, cse.fs)
		failPhase := c16sim(fl, cse.fs, cse.rc)
		payload := []byte(fmt.Sprintf("c16-%d", c.I))
		var evs []world.Ev
		setup := ""
		var mid uint16
		bubble(t, func() {
			f := newFullWorld(world.GWConfig{RetryDelay: rd, RetryCount: uint(cse.rc)}, world.BrokerCfg{FirstID: 1}, c16ClientCfg())
			if err := f.Cl.Connect(); err != nil {
				setup = "connect: " + err.Error()
			} else if err := f.Cl.Subscribe(fl.filter, 2, cbRecorder(f.W.Tr, 0, fl.filter)); err != nil {
				setup = "subscribe: " + err.Error()
			}
			synctest.Wait()
			if setup == "" {
				f.W.Tr.Add(0, world.Note, nil, "faults armed")
				f.S.SetPlan(planOf(cse.fs))
				mid = f.B.Publish(f.S, fl.topic, fl.qos, false, payload)
				time.Sleep(time.Duration(len(fl.phases)*(cse.rc+2)+2) * rd)
				synctest.Wait()
				f.S.SetPlan(nil)
			}
			evs = f.Close()
		})
		if setup != "" {
			c.Inconclusive("setup failed: " + setup)
			return
		}
		witness := map[string]interface{}{"flow": fl.name, "retry_count": cse.rc, "faults": fmt.Sprint(cse.fs), "reference_says_failing_phase": failPhase, "trace": world.Strings(evs, 70)}
		// ---- collect observations after the faults were armed
		armed := false
		var gwOut []world.SNEv // datagrams gateway -> client of this exchange
		cbs, cbWrong := 0, 0
		mqAcks := map[byte]int{}
		var brokerPubrelSeq, pubcompSeq = -1, -1
		ended := false
		for _, e := range evs {
			if e.Kind == world.Note && e.Note == "faults armed" {
				armed = true
			}
			if e.Kind == world.Note && e.Note == "teardown" {
				break
			}
			if !armed {
				continue
			}
			switch e.Kind {
			case world.End:
				ended = true
			case world.SNOut:
				if p, err := snref.Parse(e.B); err == nil {
					switch p.Type {
					case snref.REGISTER, snref.PUBLISH, snref.PUBREL:
						gwOut = append(gwOut, world.SNEv{Ev: e, P: p})
					}
				}
			case world.CB:
				cbs++
				if !bytes.Equal(e.B, payload) || !bytes.Contains([]byte(e.Note), []byte(fmt.Sprintf("topic=%q", fl.topic))) {
					cbWrong++
				}
			case world.MQOut:
				ps, _, _ := mqttref.ParseAll(e.B)
				for _, p := range ps {
					if p.MsgID == mid {
						mqAcks[p.Type]++
						if p.Type == mqttref.PUBCOMP && pubcompSeq < 0 {
							pubcompSeq = e.Seq
						}
					}
				}
			case world.MQIn:
				ps, _, _ := mqttref.ParseAll(e.B)
				for _, p := range ps {
					if p.Type == mqttref.PUBREL && p.MsgID == mid && brokerPubrelSeq < 0 {
						brokerPubrelSeq = e.Seq
					}
				}
			}
		}
		if ended {
			c.Violation("session-ended|"+fl.name, fmt.Sprintf("the gateway session ended during the %s exchange under faults %v", fl.name, cse.fs), witness)
		}
		// ---- retransmission discipline (always)
		first := map[byte]world.SNEv{}
		count := map[byte]int{}
		last := map[byte]world.SNEv{}
		for _, g := range gwOut {
			ty := g.P.Type
			tn := snref.TypeName(ty)
			count[ty]++
			f0, seen := first[ty]
			if !seen {
				first[ty] = g
				last[ty] = g
				if ty == snref.PUBLISH && g.P.DUP {
					c.Violation("dup-on-first-transmission|PUBLISH", "first PUBLISH to the client has DUP set although the broker's had not", witness)
				}
				continue
			}
			if g.P.MsgID != f0.P.MsgID || g.P.TopicID != f0.P.TopicID || g.P.TIT != f0.P.TIT || !bytes.Equal(g.P.Data, f0.P.Data) || g.P.Name != f0.P.Name || g.P.QoS != f0.P.QoS || g.P.Retain != f0.P.Retain {
				c.Violation("retransmission-differs|"+tn, fmt.Sprintf("retransmitted %s differs from the original %s", g.P, f0.P), witness)
			}
			if ty == snref.PUBLISH && !g.P.DUP {
				c.Violation("retransmission-without-dup|PUBLISH", fmt.Sprintf("retransmitted %s has DUP=0", g.P), witness)
			}
			if d := g.T - last[ty].T; d != rd {
				c.Violation("retransmission-interval|"+tn, fmt.Sprintf("%s retransmitted %v after the previous transmission (RetryDelay %v)", tn, d, rd), witness)
			}
			last[ty] = g
		}
		for ty, n := range count {
			if n > cse.rc+1 {
				c.Violation("too-many-transmissions|"+snref.TypeName(ty), fmt.Sprintf("%s was sent %d times with RetryCount %d", snref.TypeName(ty), n, cse.rc), witness)
			}
		}
		if cbWrong > 0 {
			c.Violation("handler-wrong-message|"+fl.name, "the subscription handler ran with a topic or payload other than the broker's", witness)
		}
		if fl.qos == 2 && cbs > 1 {
			c.Violation("qos2-handler-ran-twice|"+fl.name, fmt.Sprintf("the handler ran %d times for one QoS 2 message (faults %v)", cbs, cse.fs), witness)
		}
		// ---- within budget: delivery and acknowledgement
		budget := "within-budget"
		if failPhase < 0 {
			if cbs < 1 {
				c.Violation(fmt.Sprintf("not-delivered|qos=%d|%s", fl.qos, faultShape(cse.fs)), fmt.Sprintf("%s: faults %v are within the retry budget (RetryCount %d) but the client's handler never ran", fl.name, cse.fs, cse.rc), witness)
			}
			if fl.qos == 1 && mqAcks[mqttref.PUBACK] != 1 {
				c.Violation(fmt.Sprintf("broker-puback-count|%s", faultShape(cse.fs)), fmt.Sprintf("%s: the broker received %d PUBACKs for its message (faults %v)", fl.name, mqAcks[mqttref.PUBACK], cse.fs), witness)
			}
			if fl.qos == 2 {
				if mqAcks[mqttref.PUBREC] != 1 || mqAcks[mqttref.PUBCOMP] != 1 {
					c.Violation(fmt.Sprintf("broker-qos2-acks|%s", faultShape(cse.fs)), fmt.Sprintf("%s: the broker received %d PUBREC and %d PUBCOMP (faults %v)", fl.name, mqAcks[mqttref.PUBREC], mqAcks[mqttref.PUBCOMP], cse.fs), witness)
				} else if !(brokerPubrelSeq >= 0 && pubcompSeq > brokerPubrelSeq) {
					c.Violation("broker-pubcomp-before-pubrel", fl.name+": PUBCOMP reached the broker before its PUBREL", witness)
				}
				if cbs != 1 {
					c.Violation(fmt.Sprintf("qos2-handler-count|%s", faultShape(cse.fs)), fmt.Sprintf("%s: the handler ran %d times (faults %v)", fl.name, cbs, cse.fs), witness)
				}
			}
		} else {
			budget = "over-budget"
			// the request of the failing phase must have been transmitted exactly rc+1 times, then silence
			ty := fl.phases[failPhase][0]
			if count[ty] != cse.rc+1 {
				c.Violation("give-up-count|"+snref.TypeName(ty), fmt.Sprintf("%s: no acknowledgement for %s got through; it was transmitted %d times, expected RetryCount+1 = %d", fl.name, snref.TypeName(ty), count[ty], cse.rc+1), witness)
			}
			for pi := failPhase + 1; pi < len(fl.phases); pi++ {
				// later phases must not have started - unless they use the same packet type (PUBLISH never repeats)
				if n := count[fl.phases[pi][0]]; n > 0 && fl.phases[pi][0] != ty {
					c.Violation("continued-after-give-up|"+snref.TypeName(fl.phases[pi][0]), fmt.Sprintf("%s: %s was sent although the %s step had exhausted its retries", fl.name, snref.TypeName(fl.phases[pi][0]), snref.TypeName(ty)), witness)
				}
			}
		}
		r.Observe("delivery outcome", fmt.Sprintf("%s %s: transmissions REGISTER=%d PUBLISH=%d PUBREL=%d, handler ran %d x, broker acks PUBACK=%d PUBREC=%d PUBCOMP=%d", fl.name, budget, count[snref.REGISTER], count[snref.PUBLISH], count[snref.PUBREL], cbs, mqAcks[mqttref.PUBACK], mqAcks[mqttref.PUBREC], mqAcks[mqttref.PUBCOMP]))
		r.Count("gateway_transmissions", len(gwOut))
		r.Count("retransmissions_checked", len(gwOut)-len(first))
		r.Count(budget, 1)
		r.Count("handler_runs", cbs)
		c.Key("%s|rc=%d|%v", fl.name, cse.rc, cse.fs)
		if c.I == 57 || c.I == 3 {
			r.Sample(map[string]interface{}{"flow": fl.name, "retry_count": cse.rc, "faults": fmt.Sprint(cse.fs), "reference_failing_phase": failPhase, "handler_runs": cbs, "trace": world.Strings(evs, 40)})
		}
	})
	r.Finish("real client library + real gateway session + simulated broker in one virtual-time world; lossy/duplicating in-memory datagram link between client and gateway. Flows: broker PUBLISH QoS 1 and 2 on a topic the client knows (SUBACK ID), on a new topic under a wildcard subscription (REGISTER step), on a short topic. RetryDelay 10 s, RetryCount 1,2 (thorough also 0 and 4). Fault plans per flow: none; drop of the n-th occurrence (n <= RetryCount+1) of every datagram type of the flow in either direction; duplication of the 1st/2nd occurrence; all pairs of those (quick: a quarter); runs of 1..RetryCount+1 consecutive losses of each type. Reference simulation decides whether a plan stays within the retry budget of every step. Oracle within budget: handler ran (QoS 1: >= 1, QoS 2: exactly 1) with the broker's topic and payload, the broker got exactly one PUBACK / one PUBREC and one PUBCOMP (after its PUBREL), the session stayed up. Over budget: the unanswered step was transmitted exactly RetryCount+1 times and nothing of later steps was sent. Always: retransmissions repeat message ID, topic ID and payload, PUBLISH retransmissions carry DUP, consecutive transmissions are exactly RetryDelay apart, at most RetryCount+1 transmissions, QoS 2 handler never runs twice. Second front: two broker messages (QoS 1/2, then QoS 0/1/2) on one new topic 0 / 1 s / 9 s / 11 s apart while the first one's REGISTER or REGACK is lost (or duplicated), RetryCount 3: both reach the handler (QoS 2 exactly once; a QoS 0 second message may be lost), the session and the client stay up.", nil)
}

// c16ClientCfg: the gateway refuses keep-alive 0, so keep-alive is on but longer than any history here.
func c16ClientCfg() *client.ClientConfig {
	cfg := stdClientCfg("cl")
	cfg.KeepAlive = time.Hour
	return cfg
}

// faultShape abstracts a fault list to the types and kinds involved (for stable signatures).
func faultShape(fs []fault) string {
	if len(fs) == 0 {
		return "no-fault"
	}
	s := ""
	seen := map[string]bool{}
	for _, f := range fs {
		w := "drop"
		if f.what == memnet.Dup {
			w = "dup"
		}
		k := snref.TypeName(f.typ) + "-" + w
		if !seen[k] {
			seen[k] = true
			if s != "" {
				s += "+"
			}
			s += k
		}
	}
	return s
}
