package checks

import (
	"fmt"
	"testing"
	"testing/synctest"
	"time"

	"github.com/energomonitor/bisquitt/client"
	p1 "github.com/energomonitor/bisquitt/packets1"

	"verifharness/memnet"
	"verifharness/rt"
	"verifharness/snref"
	"verifharness/world"
)

// fault is one link fault: the n-th datagram (0-based) of a type in a direction is dropped or duplicated.
type fault struct {
	dir  string // world.SNIn (client->gw) / world.SNOut (gw->client)
	typ  byte
	n    int
	what memnet.Action
}

func (f fault) String() string {
	w := "drop"
	if f.what == memnet.Fail {
		return fmt.Sprintf("send-error(%s %s #%d)", f.dir, snref.TypeName(f.typ), f.n)
	}
	if f.what == memnet.Dup {
		w = "dup"
	}
	d := "c>g"
	if f.dir == world.SNOut {
		d = "g>c"
	}
	return fmt.Sprintf("%s %s#%d %s", d, snref.TypeName(f.typ), f.n, w)
}

func planOf(fs []fault) world.FaultPlan {
	return func(dir string, p *snref.Pkt, n int) memnet.Action {
		if p == nil {
			return memnet.Pass
		}
		for _, f := range fs {
			if f.dir == dir && f.typ == p.Type && f.n == n {
				return f.what
			}
		}
		return memnet.Pass
	}
}

// c17flow describes one client API flow as request/response steps.
type c17flow struct {
	name  string
	steps [][2]byte // (client request type, gateway response type) per phase
	call  func(cl *client.Client) error
	prep  func(cl *client.Client) error // before the faults are armed
	needsAck bool
}

func c17flows() []c17flow {
	return []c17flow{
		{"Publish-QoS1", [][2]byte{{snref.PUBLISH, snref.PUBACK}}, func(cl *client.Client) error { return cl.Publish("ab", []byte("p1"), 1, false) }, nil, true},
		{"Publish-QoS2", [][2]byte{{snref.PUBLISH, snref.PUBREC}, {snref.PUBREL, snref.PUBCOMP}}, func(cl *client.Client) error { return cl.Publish("ab", []byte("p2"), 2, true) }, nil, true},
		{"PublishRegistered-QoS1", [][2]byte{{snref.PUBLISH, snref.PUBACK}}, func(cl *client.Client) error { return cl.Publish("t/reg", []byte("p3"), 1, false) },
			func(cl *client.Client) error { return cl.Register("t/reg") }, true},
		{"Subscribe", [][2]byte{{snref.SUBSCRIBE, snref.SUBACK}}, func(cl *client.Client) error { return cl.Subscribe("t/sub", 1, func(*client.Client, string, *p1.Publish) {}) }, nil, true},
		{"SubscribeWildcard", [][2]byte{{snref.SUBSCRIBE, snref.SUBACK}}, func(cl *client.Client) error { return cl.Subscribe("t/#", 2, func(*client.Client, string, *p1.Publish) {}) }, nil, true},
		{"Register", [][2]byte{{snref.REGISTER, snref.REGACK}}, func(cl *client.Client) error { return cl.Register("t/new") }, nil, true},
		{"Unsubscribe", [][2]byte{{snref.UNSUBSCRIBE, snref.UNSUBACK}}, func(cl *client.Client) error { return cl.Unsubscribe("t/x") }, nil, true},
		{"Publish-QoS0", [][2]byte{{snref.PUBLISH, 0}}, func(cl *client.Client) error { return cl.Publish("ab", []byte("p0"), 0, false) }, nil, false},
		{"Publish-QoS-1", [][2]byte{{snref.PUBLISH, 0}}, func(cl *client.Client) error { return cl.Publish("ab", []byte("pm1"), 3, false) }, nil, false},
	}
}

// expectSuccess simulates the flow under the faults: phase i succeeds iff one of the first rc+1
// transmissions of its request gets through and the response sent for it gets through.
func expectSuccess(fl c17flow, fs []fault, rc int) bool {
	if !fl.needsAck {
		// fire and forget: the call fails only if the socket refuses the (single) datagram
		for _, f := range fs {
			if f.dir == world.SNIn && f.typ == fl.steps[0][0] && f.n == 0 && f.what == memnet.Fail {
				return false
			}
		}
		return true
	}
	dropped := func(dir string, typ byte, n int) bool {
		for _, f := range fs {
			if f.dir == dir && f.typ == typ && f.n == n && f.what == memnet.Drop {
				return true
			}
		}
		return false
	}
	dupped := func(dir string, typ byte, n int) bool {
		for _, f := range fs {
			if f.dir == dir && f.typ == typ && f.n == n && f.what == memnet.Dup {
				return true
			}
		}
		return false
	}
	sendFails := func(typ byte, n int) bool {
		for _, f := range fs {
			if f.dir == world.SNIn && f.typ == typ && f.n == n && f.what == memnet.Fail {
				return true
			}
		}
		return false
	}
	reqCount := map[byte]int{}
	respCount := map[byte]int{}
	for _, st := range fl.steps {
		ok := false
		for tx := 0; tx <= rc && !ok; tx++ {
			n := reqCount[st[0]]
			reqCount[st[0]]++
			if sendFails(st[0], n) {
				// the socket refused the datagram: the call reports the error, nothing more is sent
				return false
			}
			if dropped(world.SNIn, st[0], n) {
				continue
			}
			copies := 1
			if dupped(world.SNIn, st[0], n) {
				copies = 2
			}
			for k := 0; k < copies; k++ {
				m := respCount[st[1]]
				respCount[st[1]]++
				if !dropped(world.SNOut, st[1], m) {
					ok = true
				}
			}
		}
		if !ok {
			return false
		}
	}
	return true
}

func TestC17(t *testing.T) {
	r := rt.Start(t, "C17")
	flows := c17flows()
	type cs struct {
		flow int
		rc   int
		fs   []fault
	}
	var cases []cs
	for fi, fl := range flows {
		for _, rc := range []int{1, 2} {
			// candidate single faults: first rc+2 occurrences of every datagram type of the flow, both kinds
			var singles []fault
			for _, st := range fl.steps {
				for n := 0; n < rc+2; n++ {
					singles = append(singles, fault{world.SNIn, st[0], n, memnet.Drop})
					if st[1] != 0 {
						singles = append(singles, fault{world.SNOut, st[1], n, memnet.Drop})
					}
				}
				singles = append(singles, fault{world.SNIn, st[0], 0, memnet.Dup})
				// a send error (the socket refuses the datagram) on the first transmission / the first retransmission
				singles = append(singles, fault{world.SNIn, st[0], 0, memnet.Fail}, fault{world.SNIn, st[0], 1, memnet.Fail})
				if st[1] != 0 {
					singles = append(singles, fault{world.SNOut, st[1], 0, memnet.Dup}, fault{world.SNOut, st[1], 1, memnet.Dup})
				}
			}
			cases = append(cases, cs{fi, rc, nil})
			for _, f := range singles {
				cases = append(cases, cs{fi, rc, []fault{f}})
			}
			for i := range singles {
				for j := i + 1; j < len(singles); j++ {
					if singles[i].dir == singles[j].dir && singles[i].typ == singles[j].typ && singles[i].n == singles[j].n {
						continue // two fates for one datagram
					}
					cases = append(cases, cs{fi, rc, []fault{singles[i], singles[j]}})
				}
			}
			// runs of consecutive losses of the request: k = 1..rc+1
			for _, st := range fl.steps {
				for k := 1; k <= rc+1; k++ {
					var fs []fault
					for n := 0; n < k; n++ {
						fs = append(fs, fault{world.SNIn, st[0], n, memnet.Drop})
					}
					cases = append(cases, cs{fi, rc, fs})
				}
			}
		}
	}
	nFlow := len(cases)
	nPubrel := 24 + 2*len(c17between)
	total := nFlow + nPubrel
	if !r.Thorough() {
		// quick: every 3rd pair case, all singles/runs (PRNG-free, deterministic subset)
		var sub []cs
		for i, c := range cases {
			if len(c.fs) != 2 || i%3 == int(r.Seed%3) {
				sub = append(sub, c)
			}
		}
		cases = sub
		nFlow = len(cases)
		total = nFlow + nPubrel
	}
	r.Each(t, total, 0, nil, func(t *testing.T, c *rt.Case) {
		if c.I >= nFlow {
			c17pubrel(t, r, c, c.I-nFlow)
			return
		}
		cse := cases[c.I]
		fl := flows[cse.flow]
		c.Desc = fmt.Sprintf("%s rc=%d faults=%v", fl.name, cse.rc, cse.fs)
		want := expectSuccess(fl, cse.fs, cse.rc)
		var evs []world.Ev
		var callErr error
		returned := false
		setup := ""
		bubble(t, func() {
			tr := world.NewTrace()
			sg := newSimpleGw()
			g := world.NewGwPeer(tr, 0, sg.handler())
			cfg := stdClientCfg("cl")
			cfg.RetryCount = uint(cse.rc)
			cl := newClientOn(g.Link.A, cfg)
			cl.Dial("mem")
			if err := cl.Connect(); err != nil {
				setup = "connect: " + err.Error()
			}
			if setup == "" && fl.prep != nil {
				if err := fl.prep(cl); err != nil {
					setup = "prep: " + err.Error()
				}
			}
			synctest.Wait()
			if setup == "" {
				tr.Add(0, world.Note, nil, "faults armed")
				g.SetPlan(planOf(cse.fs))
				a := newAPI(tr, 0)
				n := a.Go(fl.name, func() error { return fl.call(cl) })
				// far beyond every budget: 2 phases x (rc+1) x RD, twice
				time.Sleep(time.Duration(4*(cse.rc+2)) * 10 * time.Second)
				synctest.Wait()
				callErr, returned = a.Result(n)
				g.SetPlan(nil)
			}
			cl.Close()
			time.Sleep(3 * time.Second)
			g.Close()
			synctest.Wait()
			evs = tr.Events()
		})
		if setup != "" {
			c.Inconclusive("setup failed: " + setup)
			return
		}
		witness := map[string]interface{}{"flow": fl.name, "retry_count": cse.rc, "faults": fmt.Sprint(cse.fs), "trace": world.Strings(evs, 60)}
		nf := len(cse.fs)
		if !returned {
			c.Violation("call-did-not-return|"+fl.name, fmt.Sprintf("%s did not return within %d s under faults %v", fl.name, 4*(cse.rc+2)*10, cse.fs), witness)
		} else if (callErr == nil) != want {
			c.Violation(fmt.Sprintf("wrong-result|%s|want-success=%v|faults=%d", fl.name, want, nf), fmt.Sprintf("%s (RetryCount %d) under faults %v returned %v; the gateway's acknowledgement did%s reach the client within the retry budget", fl.name, cse.rc, cse.fs, callErr, map[bool]string{true: "", false: " not"}[want]), witness)
		}
		// "nil exactly when acknowledged", the other direction: a call that reported an error must not have been
		// acknowledged all the same (the final acknowledgement of the flow delivered to the client after the call began)
		if returned && callErr != nil && fl.needsAck {
			lastAck := fl.steps[len(fl.steps)-1][1]
			seenArmed := false
			for _, e := range evs {
				if e.Kind == world.Note && e.Note == "faults armed" {
					seenArmed = true
				}
				if e.Kind == world.Note && e.Note == "teardown" {
					break
				}
				if !seenArmed || e.Kind != world.SNOut || e.Fault != "" {
					continue
				}
				if p, err := snref.Parse(e.B); err == nil && p != nil && p.Type == lastAck && (p.Type != snref.SUBACK && p.Type != snref.REGACK || p.RC == 0) {
					c.Violation(fmt.Sprintf("error-although-acknowledged|%s", fl.name), fmt.Sprintf("%s returned %v, but the gateway's %s reached the client (faults %v)", fl.name, callErr, snref.TypeName(lastAck), cse.fs), witness)
					break
				}
			}
		}
		// retransmissions of the client's requests after the faults were armed
		armed := false
		first := map[byte]*snref.Pkt{}
		count := map[byte]int{}
		for _, e := range evs {
			if e.Kind == world.Note && e.Note == "faults armed" {
				armed = true
			}
			if !armed || e.Kind != world.SNIn {
				continue
			}
			p, err := snref.Parse(e.B)
			if err != nil || p == nil {
				continue
			}
			isReq := false
			for _, st := range fl.steps {
				if st[0] == p.Type {
					isReq = true
				}
			}
			if !isReq {
				continue
			}
			count[p.Type]++
			f0 := first[p.Type]
			if f0 == nil {
				first[p.Type] = p
				if p.DUP {
					c.Violation("dup-on-first-transmission|"+snref.TypeName(p.Type), fmt.Sprintf("first transmission of %s has DUP set", p), witness)
				}
				continue
			}
			tn := snref.TypeName(p.Type)
			if p.MsgID != f0.MsgID {
				c.Violation("retransmission-msgid|"+tn, fmt.Sprintf("retransmitted %s carries message ID %d, the original %d", tn, p.MsgID, f0.MsgID), witness)
			}
			if (p.Type == snref.PUBLISH || p.Type == snref.SUBSCRIBE) && !p.DUP {
				c.Violation("retransmission-without-dup|"+tn, fmt.Sprintf("retransmitted %s has DUP=0", p), witness)
			}
			if p.Type == snref.PUBLISH && (string(p.Data) != string(f0.Data) || p.TopicID != f0.TopicID || p.QoS != f0.QoS || p.Retain != f0.Retain) {
				c.Violation("retransmission-differs|"+tn, fmt.Sprintf("retransmitted %s differs from the original %s", p, f0), witness)
			}
		}
		for ty, n := range count {
			if n > cse.rc+1 {
				c.Violation("too-many-transmissions|"+snref.TypeName(ty), fmt.Sprintf("%s was sent %d times with RetryCount %d", snref.TypeName(ty), n, cse.rc), witness)
			}
		}
		c.Key("%s|rc=%d|%v", fl.name, cse.rc, cse.fs)
		if c.I == 40 {
			r.Sample(map[string]interface{}{"flow": fl.name, "retry_count": cse.rc, "faults": fmt.Sprint(cse.fs), "expected_success": want, "returned": fmt.Sprint(callErr), "trace_tail": world.Strings(evs[max0(len(evs)-10):], 0)})
		}
	})
	r.Finish(fmt.Sprintf("real client library against a scripted, always-answering gateway over a faulty in-memory link, virtual time. Flows: Publish QoS 1/2 (short and registered topic), Subscribe (string, wildcard), Register, Unsubscribe, Publish QoS 0/-1; RetryCount 1 and 2, RetryDelay 10 s. Fault plans per flow: none; every single drop of the first RetryCount+2 occurrences of each datagram type in each direction; single duplications; a send error (the socket refuses the datagram) on the first transmission or the first retransmission of each request; all pairs of those (quick: one third of the pairs, chosen by seed); runs of 1..RetryCount+1 consecutive losses of each request - %d cases; + %d PUBREL cases (inbound QoS 2: PUBREL first / duplicated / re-sent after the exchange finished, or held back while the application makes another call - Unsubscribe/Register/Subscribe of the very topic, Publish QoS 2, Ping - must each be answered by PUBCOMP with the same ID). Oracle: the call returns nil exactly when the reference simulation says an acknowledgement reached the client within RetryCount retransmissions per phase; every retransmission repeats the message ID (and content) and PUBLISH/SUBSCRIBE retransmissions carry DUP=1; at most RetryCount+1 transmissions; a call that returned an error was not acknowledged after all.", nFlow, nPubrel), nil)
}

// c17pubrel: broker-initiated QoS 2 towards the client library; PUBREL variants.
// c17between: API calls the application makes between the client's PUBREC and the gateway's PUBREL.
var c17between = []struct {
	name string
	f    func(cl *client.Client, topic string) error
}{
	{"Unsubscribe(topic)", func(cl *client.Client, topic string) error { return cl.Unsubscribe(topic) }},
	{"Unsubscribe(#)", func(cl *client.Client, topic string) error { return cl.Unsubscribe("#") }},
	{"Register(topic)", func(cl *client.Client, topic string) error { return cl.Register(topic) }},
	{"Register(other)", func(cl *client.Client, topic string) error { return cl.Register("o/ther") }},
	{"Subscribe(topic)", func(cl *client.Client, topic string) error {
		return cl.Subscribe(topic, 1, func(*client.Client, string, *p1.Publish) {})
	}},
	{"Publish(QoS2)", func(cl *client.Client, topic string) error { return cl.Publish("cd", []byte("x"), 2, false) }},
	{"Ping", func(cl *client.Client, topic string) error { return cl.Ping() }},
}

// c17pubrelBetween: the gateway's PUBREL is held back while the application makes another API call.
func c17pubrelBetween(t *testing.T, r *rt.Run, c *rt.Case, k int) {
	bt := c17between[k%len(c17between)]
	named := k/len(c17between) == 0
	topic := "ab"
	if named {
		topic = "x/y"
	}
	c.Desc = fmt.Sprintf("inbound QoS2 on %q; %s between PUBREC and PUBREL", topic, bt.name)
	var evs []world.Ev
	var callErr error
	bubble(t, func() {
		tr := world.NewTrace()
		sg := newSimpleGw()
		sg.HoldPubrel = true
		g := world.NewGwPeer(tr, 0, sg.handler())
		cl := newClientOn(g.Link.A, stdClientCfg("cl"))
		cl.Dial("mem")
		cl.Connect()
		cl.Subscribe("#", 2, cbRecorder(tr, 0, "#"))
		if named {
			// the application knows the topic by name too
			cl.Subscribe(topic, 2, cbRecorder(tr, 0, topic))
		}
		sg.deliver(g, topic, 2, []byte("q2msg"))
		synctest.Wait()
		mid := sg.nextMsg
		callErr = bt.f(cl, topic)
		synctest.Wait()
		g.Send(snref.MsgOnly(snref.PUBREL, mid))
		synctest.Wait()
		time.Sleep(time.Second)
		cl.Close()
		time.Sleep(3 * time.Second)
		g.Close()
		synctest.Wait()
		evs = tr.Events()
	})
	witness := map[string]interface{}{"case": c.Desc, "trace": world.Strings(evs, 60)}
	if callErr != nil {
		c.Inconclusive("the call in between failed: " + callErr.Error())
		return
	}
	pubrels, pubcomps := 0, 0
	for _, e := range evs {
		p, _ := snref.ParseLoose(e.B)
		if e.Kind == world.SNOut && p != nil && p.Type == snref.PUBREL {
			pubrels++
		}
		if e.Kind == world.SNIn && p != nil && p.Type == snref.PUBCOMP && pubrels > 0 {
			pubcomps++
		}
	}
	if pubrels == 0 {
		c.Inconclusive("no PUBREL was sent")
		return
	}
	if pubcomps < pubrels {
		c.Violation("pubrel-unanswered|after-"+opKind(bt.name), fmt.Sprintf("the gateway's PUBREL, sent after the application's %s, was not answered with PUBCOMP", bt.name), witness)
	}
	c.Key("pubrel-between|%s|%v", bt.name, named)
}

func c17pubrel(t *testing.T, r *rt.Run, c *rt.Case, k int) {
	if k >= 24 {
		c17pubrelBetween(t, r, c, k-24)
		return
	}
	variant := k % 4 // 0 single, 1 duplicated, 2 re-sent after PUBCOMP, 3 re-sent twice later
	named := (k/4)%2 == 0
	qosSub := uint8((k / 8) % 3)
	c.Desc = fmt.Sprintf("inbound QoS2 PUBREL variant=%d registered-topic=%v", variant, named)
	var evs []world.Ev
	bubble(t, func() {
		tr := world.NewTrace()
		sg := newSimpleGw()
		g := world.NewGwPeer(tr, 0, sg.handler())
		cl := newClientOn(g.Link.A, stdClientCfg("cl"))
		cl.Dial("mem")
		cl.Connect()
		cl.Subscribe("#", qosSub, cbRecorder(tr, 0, "#"))
		topic := "ab"
		if named {
			topic = "x/y"
		}
		// deliver without automatic PUBREL: the handler answers PUBREC with PUBREL, so send PUBLISH and let it run
		sg.deliver(g, topic, 2, []byte("q2msg"))
		synctest.Wait()
		mid := sg.nextMsg
		switch variant {
		case 1:
			g.Send(snref.MsgOnly(snref.PUBREL, mid))
		case 2:
			time.Sleep(5 * time.Second)
			g.Send(snref.MsgOnly(snref.PUBREL, mid))
		case 3:
			time.Sleep(5 * time.Second)
			g.Send(snref.MsgOnly(snref.PUBREL, mid))
			time.Sleep(5 * time.Second)
			g.Send(snref.MsgOnly(snref.PUBREL, mid))
		}
		synctest.Wait()
		time.Sleep(time.Second)
		cl.Close()
		time.Sleep(3 * time.Second)
		g.Close()
		synctest.Wait()
		evs = tr.Events()
	})
	pubrels, pubcomps, cbs := map[uint16]int{}, map[uint16]int{}, 0
	for _, e := range evs {
		p, _ := snref.ParseLoose(e.B)
		if e.Kind == world.SNOut && p != nil && p.Type == snref.PUBREL {
			pubrels[p.MsgID]++
		}
		if e.Kind == world.SNIn && p != nil && p.Type == snref.PUBCOMP {
			pubcomps[p.MsgID]++
		}
		if e.Kind == world.CB {
			cbs++
		}
	}
	witness := map[string]interface{}{"trace": world.Strings(evs, 60)}
	if len(pubrels) == 0 {
		c.Inconclusive("no PUBREL was sent (client did not answer PUBLISH with PUBREC?)")
		return
	}
	for id, n := range pubrels {
		if pubcomps[id] != n {
			c.Violation(fmt.Sprintf("pubrel-unanswered|variant=%d", variant), fmt.Sprintf("gateway sent PUBREL(%d) %d time(s), the client answered with %d PUBCOMP(s)", id, n, pubcomps[id]), witness)
		}
	}
	if cbs != 1 {
		c.Violation(fmt.Sprintf("qos2-handler-count|variant=%d", variant), fmt.Sprintf("handler ran %d times for one QoS 2 message", cbs), witness)
	}
	c.Key("pubrel|%d|%v|%d", variant, named, qosSub)
}
