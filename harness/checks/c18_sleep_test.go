package checks

import (
	"fmt"
	"sync/atomic"
	"testing"
	"testing/synctest"
	"time"

	"github.com/energomonitor/bisquitt/client"

	"verifharness/rt"
	"verifharness/snref"
	"verifharness/world"
)

// c18sleepCase describes one history of the client's sleep transaction.
type c18sleepCase struct {
	real    bool          // real time (no bubble), tiny delays
	rd      time.Duration // RetryDelay
	rc      uint
	sleep   time.Duration
	discAt  []time.Duration // delays (after each received DISCONNECT) at which the gateway replies with DISCONNECT; empty = never
	pingAt  time.Duration   // delay of the PINGRESP after the waking PINGREQ; <0 = never
	closeAt time.Duration   // when >0: Close() is called that long after Sleep() started
	dupPing bool            // PINGRESP sent twice
	slowTx  time.Duration   // real time only: the client's DISCONNECT retransmissions take this long to leave (slow interface)
}

func (k c18sleepCase) String() string {
	return fmt.Sprintf("real=%v rd=%v rc=%d sleep=%v disconnect-replies-after=%v pingresp-after=%v dup-pingresp=%v close-at=%v slow-tx=%v", k.real, k.rd, k.rc, k.sleep, k.discAt, k.pingAt, k.dupPing, k.closeAt, k.slowTx)
}

func c18sleepGen(rng interface{ Intn(int) int }, real bool, slow bool) c18sleepCase {
	k := c18sleepCase{real: real}
	k.rc = uint(rng.Intn(3))
	if slow {
		// Slow interface (real time, whole seconds because the sleep duration on the wire is in seconds): the first
		// DISCONNECT retransmission takes 1.3 s to leave; the gateway's reply to the original arrives just after the
		// retransmission started, the client sleeps 1 s, wakes up, gets its PINGRESP at once. If the transaction is
		// finished while the retransmission is still leaving, the retransmission is delivered after Sleep() returned.
		k.rc = uint(1 + rng.Intn(2))
		k.rd = []time.Duration{30 * time.Millisecond, 50 * time.Millisecond}[rng.Intn(2)]
		k.sleep = time.Second
		k.discAt = []time.Duration{k.rd + time.Duration(5+rng.Intn(20))*time.Millisecond}
		k.pingAt = 0
		k.slowTx = 1300 * time.Millisecond
		return k
	}
	if real {
		k.rd = []time.Duration{0, 1, 20 * time.Microsecond, 200 * time.Microsecond, time.Millisecond}[rng.Intn(5)]
		k.sleep = []time.Duration{0, 50 * time.Microsecond, 500 * time.Microsecond}[rng.Intn(3)]
		n := 1 + rng.Intn(2)
		for i := 0; i < n; i++ {
			k.discAt = append(k.discAt, []time.Duration{0, 0, k.rd, k.rd / 2}[rng.Intn(4)])
		}
		k.pingAt = []time.Duration{0, 0, 100 * time.Microsecond}[rng.Intn(3)]
		if rng.Intn(3) == 0 {
			k.closeAt = []time.Duration{1, k.rd, k.rd + k.sleep, 300 * time.Microsecond}[rng.Intn(4)]
			if k.closeAt == 0 {
				k.closeAt = 1
			}
		}
	} else {
		k.rd = 2 * time.Second
		k.sleep = []time.Duration{time.Second, 2 * time.Second, 3 * time.Second}[rng.Intn(3)]
		switch rng.Intn(6) {
		case 0: // never answered
		default:
			n := 1 + rng.Intn(2)
			for i := 0; i < n; i++ {
				// instant, exactly at the retry timer's instant, just before it, one period later
				k.discAt = append(k.discAt, []time.Duration{0, 0, k.rd, k.rd - time.Millisecond, 2 * k.rd, k.rd * time.Duration(k.rc+1)}[rng.Intn(6)])
			}
		}
		k.pingAt = []time.Duration{0, 0, time.Minute, time.Minute - time.Millisecond, -1}[rng.Intn(5)]
		if rng.Intn(3) == 0 {
			k.closeAt = []time.Duration{k.rd, k.sleep, k.rd + k.sleep, time.Minute + k.sleep, 100 * time.Millisecond}[rng.Intn(5)]
		}
	}
	k.dupPing = rng.Intn(4) == 0
	return k
}

// c18sleep runs one sleep-transaction history through the real Client.Sleep with a scripted gateway.
func c18sleep(t *testing.T, r *rt.Run, c *rt.Case, real bool, slow bool) {
	k := c18sleepGen(c.Rand(), real, slow)
	c.Desc = "sleep-transaction " + k.String()
	var evs []world.Ev
	returned := false
	body := func() {
		tr := world.NewTrace()
		nDisc := 0
		g := world.NewGwPeer(tr, 0, func(g *world.GwPeer, p *snref.Pkt, raw []byte) {
			if p == nil {
				return
			}
			switch p.Type {
			case snref.CONNECT:
				g.Send(snref.Connack(0))
			case snref.DISCONNECT:
				if p.Duration == 0 && !p.HasDur {
					g.Send(snref.Disconnect())
					return
				}
				for i, d := range k.discAt {
					if i > 0 && nDisc > 0 {
						break // the extra replies are sent once only
					}
					if d == 0 {
						g.Send(snref.Disconnect())
					} else {
						g.SendAfter(d, snref.Disconnect())
					}
				}
				nDisc++
			case snref.PINGREQ:
				if k.pingAt < 0 {
					return
				}
				n := 1
				if k.dupPing {
					n = 2
				}
				for i := 0; i < n; i++ {
					if k.pingAt == 0 {
						g.Send(snref.Pingresp())
					} else {
						g.SendAfter(k.pingAt, snref.Pingresp())
					}
				}
			}
		})
		cfg := &client.ClientConfig{ClientID: "cl", RetryDelay: k.rd, RetryCount: k.rc, ConnectTimeout: 5 * time.Second, CleanSession: true}
		if real && cfg.RetryDelay == 0 {
			cfg.ConnectTimeout = time.Second
		}
		// Connect must not be disturbed by the tiny RetryDelay: it uses ConnectTimeout.
		if k.slowTx > 0 {
			var nd int32
			g.Link.A.PreWrite = func(b []byte) {
				p, _ := snref.ParseLoose(b)
				if p == nil {
					return
				}
				if p.Type == snref.DISCONNECT && p.HasDur && atomic.AddInt32(&nd, 1) > 1 {
					time.Sleep(k.slowTx)
				}
			}
		}
		cl := newClientOn(g.Link.A, cfg)
		cl.Dial("mem")
		if err := cl.Connect(); err != nil {
			c.Inconclusive("connect failed: " + err.Error())
			cl.Close()
			g.Close()
			return
		}
		a := newAPI(tr, 0)
		n := a.Go("Sleep", func() error { return cl.Sleep(k.sleep) })
		if k.closeAt > 0 {
			time.Sleep(k.closeAt)
			cl.Close()
		}
		if real {
			deadline := time.Now().Add(5 * time.Second)
			for time.Now().Before(deadline) {
				if _, ok := a.Result(n); ok {
					returned = true
					break
				}
				time.Sleep(200 * time.Microsecond)
			}
			// let stray timers fire (and a retransmission that is still leaving a slow interface get out)
			time.Sleep(3*time.Millisecond + k.slowTx + k.slowTx/10)
			cl.Close()
			time.Sleep(time.Millisecond)
			g.Close()
		} else {
			time.Sleep(time.Duration(k.rc+2)*k.rd + k.sleep + 2*time.Minute)
			synctest.Wait()
			_, returned = a.Result(n)
			// nothing of the finished transaction may act later: keep watching
			time.Sleep(3 * time.Minute)
			synctest.Wait()
			cl.Close()
			time.Sleep(3 * time.Second)
			g.Close()
			synctest.Wait()
		}
		evs = tr.Events()
	}
	if real {
		body()
	} else {
		bubble(t, body)
	}
	witness := map[string]interface{}{"case": k.String(), "trace": world.Strings(evs, 60)}
	mode := "bubble"
	if real {
		mode = "real-time"
	}
	if !returned {
		if real {
			c.Inconclusive("Sleep did not return within the 5 s real-time watchdog")
		} else {
			c.Violation("sleep|never-completes|"+mode, "Client.Sleep has not returned although every timer of its transaction has expired: "+k.String(), witness)
		}
		return
	}
	// "No further retransmission": after Sleep returned (and only the transaction can have made it return), the transaction is finished; neither a
	// DISCONNECT(duration) retransmission nor a waking PINGREQ (it carries the client ID) may follow.
	// Only when nothing else can have made Sleep() return: with a Close() in the history Sleep() also
	// returns because the client terminates, while its transaction is not finished and its timers
	// legitimately run on until their next action fails.
	if k.closeAt > 0 {
		r.Count("sleep_transaction_events", len(evs))
		c.Key("sleep|%s", k)
		return
	}
	ret := false
	var retT time.Duration
	for _, e := range evs {
		if e.Kind == world.Ret {
			ret = true
			retT = e.T
			continue
		}
		if !ret || e.Kind != world.SNIn {
			continue
		}
		if !real && e.T == retT {
			continue // same virtual instant as the return: order within an instant is not judged
		}
		p, _ := snref.ParseLoose(e.B)
		if p == nil {
			continue
		}
		if p.Type == snref.DISCONNECT && p.HasDur && p.Duration > 0 {
			c.Violation("sleep|retransmission-after-done|DISCONNECT|"+mode, fmt.Sprintf("DISCONNECT(%d) was (re)transmitted at %v, after Sleep() had returned: %s", p.Duration, e.T, k), witness)
		}
		if p.Type == snref.PINGREQ && len(p.ClientID) > 0 {
			c.Violation("sleep|wakeup-after-done|"+mode, fmt.Sprintf("waking PINGREQ was sent at %v, after Sleep() had returned: %s", e.T, k), witness)
		}
	}
	r.Count("sleep_transaction_events", len(evs))
	c.Key("sleep|%s", k)
}
