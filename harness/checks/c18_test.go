package checks

import (
	"context"
	"errors"
	"fmt"
	"os"
	"strings"
	"sync"
	"sync/atomic"
	"testing"
	"testing/synctest"
	"time"

	"github.com/energomonitor/bisquitt/transactions"

	"verifharness/rt"
)

// txProbe watches one transaction: finally count, callbacks and whether a
// callback started after Done had been observed closed.
type txProbe struct {
	finally    int32
	callbacks  int32
	doneSeen   int32 // set by the observer as soon as it sees Done closed
	cbAfter    int32 // callbacks that started after doneSeen was set
	errAtDone  atomic.Value
	errChanged int32
	// slowFinally makes the completion callback take this long (real-time histories only): the
	// real callbacks delete from a transaction store under its lock, so completion is not instantaneous.
	slowFinally time.Duration
}

func (p *txProbe) finallyCb() {
	atomic.AddInt32(&p.finally, 1)
	if p.slowFinally > 0 {
		time.Sleep(p.slowFinally)
	}
}

var errA, errB = errors.New("failure A"), errors.New("failure B")

type txHandle struct {
	tx      transactions.Transaction
	proceed func(d int)
	kind    string
}

func isDone(tx transactions.Transaction) bool {
	select {
	case <-tx.Done():
		return true
	default:
		return false
	}
}

type errBox struct{ e error }

// observe samples the transaction: once Done is closed, Err must stay what it was at first observation.
func (p *txProbe) observe(tx transactions.Transaction) {
	if !isDone(tx) {
		return
	}
	e := tx.Err()
	atomic.StoreInt32(&p.doneSeen, 1)
	if old := p.errAtDone.Load(); old == nil {
		p.errAtDone.CompareAndSwap(nil, errBox{e})
	}
	if old := p.errAtDone.Load(); old != nil && old.(errBox).e != e {
		// re-read: the first stored value may have come from a concurrent observer
		atomic.AddInt32(&p.errChanged, 1)
	}
}

func newRetry(ctx context.Context, p *txProbe, rd time.Duration, rc uint, cbErrAt int32) *txHandle {
	var tx *transactions.RetryTransaction
	tx = transactions.NewRetryTransaction(ctx, rd, rc, func(d interface{}) error {
		n := atomic.AddInt32(&p.callbacks, 1)
		// A retry callback that starts when Done is already closed is a retry after completion
		// (Done is closed and callbacks are started under the transaction's own lock, so on
		// correct code this is never observed, whatever the schedule).
		if atomic.LoadInt32(&p.doneSeen) == 1 || (tx != nil && isDone(tx)) {
			atomic.AddInt32(&p.cbAfter, 1)
		}
		if cbErrAt > 0 && n == cbErrAt {
			return errB
		}
		return nil
	}, p.finallyCb)
	return &txHandle{tx: tx, kind: "retry", proceed: func(d int) { tx.Proceed("st", d) }}
}

func newTimed(ctx context.Context, p *txProbe, timeout time.Duration) *txHandle {
	tx := transactions.NewTimedTransaction(ctx, timeout, p.finallyCb)
	return &txHandle{tx: tx, kind: "timed", proceed: func(int) {}}
}

// verdict checks the end-of-history invariants of C18.
func (p *txProbe) verdict(c *rt.Case, h *txHandle, ops string, mode string) {
	if atomic.LoadInt32(&p.doneSeen) == 0 {
		c.R.Observe("transaction outcome", fmt.Sprintf("%s %s: not completed, %d retry callbacks", h.kind, strings.SplitN(mode, "-", 2)[0], atomic.LoadInt32(&p.callbacks)))
		return
	}
	if eb, ok := p.errAtDone.Load().(errBox); ok {
		// which of the competing completions won, and after how many retries
		c.R.Observe("transaction outcome", fmt.Sprintf("%s %s: Err=%v after %d retry callbacks", h.kind, strings.SplitN(mode, "-", 2)[0], eb.e, atomic.LoadInt32(&p.callbacks)))
	}
	f := atomic.LoadInt32(&p.finally)
	if f != 1 {
		c.Violation(fmt.Sprintf("%s|finally-count|%s", h.kind, mode), fmt.Sprintf("%s transaction: completion callback ran %d times (ops: %s)", h.kind, f, ops), map[string]interface{}{"ops": ops})
	}
	if atomic.LoadInt32(&p.errChanged) > 0 {
		c.Violation(fmt.Sprintf("%s|err-changed|%s", h.kind, mode), fmt.Sprintf("%s transaction: Err() changed after Done was closed (ops: %s)", h.kind, ops), map[string]interface{}{"ops": ops})
	}
	if n := atomic.LoadInt32(&p.cbAfter); n > 0 {
		c.Violation(fmt.Sprintf("%s|callback-after-done|%s", h.kind, mode), fmt.Sprintf("%s transaction: %d retry callback(s) started after Done was observed closed (ops: %s)", h.kind, n, ops), map[string]interface{}{"ops": ops})
	}
}

var c18ops = []string{"success", "failA", "failB", "proceed", "tick", "cancel", "cberr"}

// applyOp performs one step of a deterministic history inside a bubble.
func applyOp(op string, h *txHandle, cancel context.CancelFunc, rd time.Duration, d *int) {
	switch op {
	case "success":
		h.tx.Success()
	case "failA":
		h.tx.Fail(errA)
	case "failB":
		h.tx.Fail(errB)
	case "proceed":
		*d++
		h.proceed(*d)
	case "tick":
		time.Sleep(rd)
	case "cancel":
		cancel()
	}
}

func TestC18(t *testing.T) {
	r := rt.Start(t, "C18")
	phase := os.Getenv("VERIF_PHASE")
	// Deterministic histories: all op sequences of length 1..4 over 6 ops for retry (rc 0..2) and timed.
	var seqs [][]string
	var gen func(prefix []string, n int)
	base := []string{"success", "failA", "failB", "proceed", "tick", "cancel"}
	gen = func(prefix []string, n int) {
		if len(prefix) > 0 {
			seqs = append(seqs, append([]string(nil), prefix...))
		}
		if n == 0 {
			return
		}
		for _, o := range base {
			gen(append(prefix, o), n-1)
		}
	}
	gen(nil, 4)
	nDet := len(seqs) // 6+36+216+1296 = 1554
	nSame := r.N(600, 6000)
	nReal := r.N(400, 4000)
	nSleepB := r.N(1500, 15000)
	nSleepR := r.N(1500, 8000)
	nSleepSlow := r.N(32, 160)
	total := nDet + nSame + nReal + nSleepB + nSleepR + nSleepSlow
	r.Each(t, total, 0, nil, func(t *testing.T, c *rt.Case) {
		rng := c.Rand()
		switch {
		case c.I >= nDet+nSame+nReal+nSleepB+nSleepR:
			c18sleep(t, r, c, true, true)
		case c.I >= nDet+nSame+nReal+nSleepB:
			c18sleep(t, r, c, true, false)
		case c.I >= nDet+nSame+nReal:
			c18sleep(t, r, c, false, false)
			if c.I == nDet+nSame+nReal+3 {
				r.Sample(map[string]interface{}{"kind": "sleep transaction history", "case": c.Desc})
			}
		case c.I < nDet:
			// (a) deterministic histories in virtual time, lock-step
			seq := seqs[c.I]
			for variant := 0; variant < 5; variant++ {
				ops := fmt.Sprintf("%v", seq)
				p := &txProbe{}
				var h *txHandle
				mode := ""
				synctest.Test(t, func(t *testing.T) {
					ctx, cancel := context.WithCancel(context.Background())
					defer cancel()
					rd := time.Second
					switch variant {
					case 0, 1, 2:
						h = newRetry(ctx, p, rd, uint(variant), 0)
						mode = fmt.Sprintf("det-rc%d", variant)
						h.proceed(0)
					case 3:
						h = newRetry(ctx, p, rd, 3, 2) // callback fails on its 2nd call
						mode = "det-cberr"
						h.proceed(0)
					case 4:
						h = newTimed(ctx, p, 1500*time.Millisecond)
						mode = "det-timed"
					}
					d := 0
					for _, op := range seq {
						applyOp(op, h, cancel, rd, &d)
						synctest.Wait()
						p.observe(h.tx)
					}
					// let every timer that may still be armed fire
					for k := 0; k < 8; k++ {
						time.Sleep(rd)
						synctest.Wait()
						p.observe(h.tx)
					}
				})
				p.verdict(c, h, ops, mode)
				c.Key("%s|%s", mode, ops)
			}
			c.Evals(5)
			if c.I == 100 {
				r.Sample(map[string]interface{}{"kind": "deterministic history", "ops": seqs[c.I], "variants": "retry rc=0,1,2; retry with failing callback; timed"})
			}
		case c.I < nDet+nSame:
			// (b) same-instant collisions in a bubble: completion calls scheduled for exactly the instant a timer fires
			p := &txProbe{}
			var h *txHandle
			rc := uint(rng.Intn(3))
			timed := rng.Intn(4) == 0
			nact := 1 + rng.Intn(3)
			acts := make([]string, nact)
			for i := range acts {
				acts[i] = []string{"success", "failA", "proceed", "failB"}[rng.Intn(4)]
			}
			tickNo := 1 + rng.Intn(int(rc)+1)
			ops := fmt.Sprintf("rc=%d timed=%v at-tick=%d concurrently:%v", rc, timed, tickNo, acts)
			synctest.Test(t, func(t *testing.T) {
				ctx, cancel := context.WithCancel(context.Background())
				defer cancel()
				rd := time.Second
				if timed {
					h = newTimed(ctx, p, time.Duration(tickNo)*rd)
				} else {
					h = newRetry(ctx, p, rd, rc, 0)
					h.proceed(0)
				}
				var wg sync.WaitGroup
				for i, a := range acts {
					wg.Add(1)
					go func(i int, a string) {
						defer wg.Done()
						time.Sleep(time.Duration(tickNo) * rd) // wakes at the same virtual instant as the timer
						d := 100 + i
						applyOp(a, h, cancel, rd, &d)
						p.observe(h.tx)
					}(i, a)
				}
				wg.Wait()
				for k := 0; k < 8; k++ {
					time.Sleep(rd)
					synctest.Wait()
					p.observe(h.tx)
				}
			})
			p.verdict(c, h, ops, "same-instant")
			c.Key("same|%s", ops)
		default:
			// (c) real-time collisions: tiny real delays, several goroutines, no bubble
			p := &txProbe{}
			delays := []time.Duration{0, 1, time.Microsecond, 20 * time.Microsecond, 200 * time.Microsecond}
			rd := delays[rng.Intn(len(delays))]
			rc := uint(rng.Intn(3))
			timed := rng.Intn(3) == 0
			if rng.Intn(2) == 0 {
				p.slowFinally = 500 * time.Microsecond
			}
			ctx, cancel := context.WithCancel(context.Background())
			var h *txHandle
			if timed {
				h = newTimed(ctx, p, rd)
			} else {
				h = newRetry(ctx, p, rd, rc, 0)
				h.proceed(0)
			}
			g := 2 + rng.Intn(3)
			var wg sync.WaitGroup
			plan := make([][]string, g)
			for i := range plan {
				for k := 0; k < 1+rng.Intn(3); k++ {
					plan[i] = append(plan[i], []string{"success", "failA", "proceed", "failB", "cancel"}[rng.Intn(5)])
				}
			}
			if rng.Intn(4) == 0 {
				// several acknowledgements of one exchange at once (duplicated datagrams)
				for i := range plan {
					plan[i][0] = "success"
				}
			}
			ops := fmt.Sprintf("rd=%v rc=%d timed=%v slow-finally=%v goroutines=%v", rd, rc, timed, p.slowFinally, plan)
			for i := 0; i < g; i++ {
				wg.Add(1)
				go func(i int) {
					defer wg.Done()
					for k, a := range plan[i] {
						if rd > 0 {
							time.Sleep(rd / time.Duration(1+k))
						}
						d := i*10 + k
						applyOp(a, h, cancel, 0, &d)
						p.observe(h.tx)
					}
				}(i)
			}
			wg.Wait()
			deadline := time.Now().Add(50 * time.Millisecond)
			for time.Now().Before(deadline) {
				p.observe(h.tx)
				time.Sleep(time.Millisecond)
			}
			cancel()
			p.verdict(c, h, ops, "real-time")
			c.Key("real|%s", ops)
			if phase == "race" && c.I == nDet+nSame {
				r.Sample(map[string]interface{}{"kind": "real-time collision under -race", "ops": ops})
			}
		}
	})
	r.Finish("(a) every sequence of 1..4 operations over {Success, Fail(A), Fail(B), Proceed, advance one RetryDelay, cancel context} (1554 sequences) on 5 transaction variants (retry with RetryCount 0/1/2, retry whose callback fails, timed) in lock-step virtual time; (b) 1-3 completion calls scheduled for the very virtual instant a retry/timeout timer fires; (c) 2-4 goroutines issuing completion calls with 0/1ns/1us/20us/200us real delays against timers of the same size, in half of these histories with a completion callback that takes 500 us (two completions that both pass the 'already done?' test then both run it). Oracle after every step and at the end: Err() constant once Done is closed, completion callback count exactly 1, no retry callback starting after Done was observed closed; (d) the client's sleep transaction through the real Client.Sleep against a scripted gateway: DISCONNECT replies instantly / exactly at / just before the retry timer's instant / never, PINGRESP instantly / at the 60 s limit / never / duplicated, Close() at timer instants - in virtual time (RetryDelay 2 s) and in real time with RetryDelay 0..1 ms; oracle: Sleep returns, and (in histories without Close) after it returned no DISCONNECT retransmission and no waking PINGREQ is sent. The 'race' phase runs the same list under the race detector and any report located in package transactions or in client.sleepTransaction decides. Distinct by (variant, operation sequence).", nil)
}
