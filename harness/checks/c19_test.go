package checks

import (
	"context"
	"errors"
	"fmt"
	"strings"
	"sync"
	"testing"
	"testing/synctest"
	"time"

	"github.com/energomonitor/bisquitt/transactions"

	"verifharness/rt"
)

type txLog struct {
	mu  sync.Mutex
	t0  time.Time
	evs []string // "cb@<dur>:<data>", "done@<dur>:<err>", "finally@<dur>"
}

func (l *txLog) add(format string, a ...interface{}) {
	l.mu.Lock()
	l.evs = append(l.evs, fmt.Sprintf("%s@%v", fmt.Sprintf(format, a...), time.Since(l.t0)))
	l.mu.Unlock()
}
func (l *txLog) snapshot() []string {
	l.mu.Lock()
	defer l.mu.Unlock()
	return append([]string(nil), l.evs...)
}

var errCustom = errors.New("custom failure")

type schedEv struct {
	at   time.Duration
	kind string // "proceed", "success", "fail"
}

func TestC19(t *testing.T) {
	r := rt.Start(t, "C19")
	nRetry := r.N(2400, 24000)
	nTimed := r.N(300, 3000)
	nSlow := r.N(120, 1200)
	total := nRetry + nTimed + nSlow
	rds := []time.Duration{time.Millisecond, time.Second, 10 * time.Second, 250 * time.Millisecond}
	r.Each(t, total, 0, nil, func(t *testing.T, c *rt.Case) {
		rng := c.Rand()
		if c.I >= nRetry+nTimed {
			// ---- progress arriving while a (slow) retry callback is running ----
			k := c.I - nRetry - nTimed
			rc := uint(1 + k%4)
			// Real time, not a bubble: the callback runs with the transaction's mutex held, and a goroutine
			// blocked on a sync.Mutex keeps a synctest clock from advancing. The verdict uses counts and a
			// lower time bound only (a timer never fires early), never an upper wall-clock bound.
			rd := []time.Duration{40 * time.Millisecond, 60 * time.Millisecond, 25 * time.Millisecond}[(k/4)%3]
			slowAt := 1 + (k/12)%int(rc)                       // which callback is slow
			busy := rd * time.Duration(40+rng.Intn(30)) / 100  // how long it takes
			off := busy * time.Duration(30+rng.Intn(30)) / 100 // progress arrives this long after the callback started
			c.Desc = fmt.Sprintf("slow callback rc=%d rd=%v slow=#%d busy=%v progress at +%v", rc, rd, slowAt, busy, off)
			var log txLog
			var progressAt time.Duration
			func() {
				log.t0 = time.Now()
				ctx, cancel := context.WithCancel(context.Background())
				defer cancel()
				ncb := 0
				var tx *transactions.RetryTransaction
				tx = transactions.NewRetryTransaction(ctx, rd, rc, func(d interface{}) error {
					ncb++
					log.add("cb:%v", d)
					if ncb == slowAt {
						time.Sleep(busy)
					}
					return nil
				}, func() { log.add("finally") })
				go func() { <-tx.Done(); log.add("done:%v", tx.Err()) }()
				tx.Proceed("s", 0)
				time.Sleep(time.Duration(slowAt)*rd + off)
				progressAt = time.Since(log.t0)
				tx.Proceed("s2", 1)
				select {
				case <-tx.Done():
				case <-time.After(time.Duration(rc+4)*rd + 20*time.Second):
				}
				time.Sleep(2 * rd)
			}()
			after, doneAt, doneErr := 0, time.Duration(-1), ""
			slowStart, n0 := time.Duration(-1), 0
			for _, e := range log.snapshot() {
				if strings.HasPrefix(e, "cb:0@") {
					n0++
					if n0 == slowAt {
						slowStart, _ = time.ParseDuration(e[5:])
					}
				}
			}
			if slowStart < 0 || progressAt <= slowStart || progressAt >= slowStart+busy {
				// scheduling jitter: the progress did not arrive while the slow callback was running
				c.Inconclusive("progress missed the slow callback window (real-time jitter)")
				return
			}
			for _, e := range log.snapshot() {
				var d time.Duration
				if i := strings.LastIndex(e, "@"); i > 0 {
					d, _ = time.ParseDuration(e[i+1:])
				}
				if strings.HasPrefix(e, "cb:1@") {
					after++
				}
				if strings.HasPrefix(e, "done:") {
					doneAt, doneErr = d, e[5:strings.LastIndex(e, "@")]
				}
			}
			lo := progressAt + time.Duration(rc+1)*rd
			hi := "unbounded (real time)"
			if after != int(rc) || doneErr != transactions.ErrNoMoreRetries.Error() || doneAt < lo {
				c.Violation("retry|progress-during-callback", fmt.Sprintf("Proceed at %v while retry callback #%d (busy %v) was running, rc=%d rd=%v: %d retries with the new data (expected %d), Done %q at %v (expected 'no more retries' within [%v,%v])", progressAt, slowAt, busy, rc, rd, after, rc, doneErr, doneAt, lo, hi), map[string]interface{}{"log": log.snapshot()})
			}
			c.Key("slow|%d|%v|%d", rc, rd, slowAt)
			return
		}
		if c.I >= nRetry {
			// ---- timed transaction ----
			k := c.I - nRetry
			timeout := []time.Duration{time.Millisecond, time.Second, 5 * time.Second}[k%3]
			mode := (k / 3) % 3 // 0 none, 1 success, 2 fail
			frac := []int{1, 10, 50, 90, 99}[rng.Intn(5)]
			at := timeout * time.Duration(frac) / 100
			c.Desc = fmt.Sprintf("timed timeout=%v mode=%d at=%v", timeout, mode, at)
			var log txLog
			synctest.Test(t, func(t *testing.T) {
				log.t0 = time.Now()
				ctx, cancel := context.WithCancel(context.Background())
				defer cancel()
				tx := transactions.NewTimedTransaction(ctx, timeout, func() { log.add("finally") })
				stop := make(chan struct{})
				defer close(stop) // a transaction that never completes must not keep the bubble from ending: it shows as a missing event
				go func() {
					select {
					case <-tx.Done():
						log.add("done:%v", tx.Err())
					case <-stop:
					}
				}()
				if mode != 0 {
					time.Sleep(at)
					if mode == 1 {
						tx.Success()
					} else {
						tx.Fail(errCustom)
					}
				}
				time.Sleep(3 * timeout)
				synctest.Wait()
			})
			var want string
			switch mode {
			case 0:
				want = fmt.Sprintf("done:%v@%v", transactions.ErrTimeout, timeout)
			case 1:
				want = fmt.Sprintf("done:%v@%v", nil, at)
			case 2:
				want = fmt.Sprintf("done:%v@%v", errCustom, at)
			}
			var dones []string
			for _, e := range log.snapshot() {
				if len(e) > 4 && e[:5] == "done:" {
					dones = append(dones, e)
				}
			}
			if len(dones) != 1 || dones[0] != want {
				c.Violation(fmt.Sprintf("timed|mode=%d", mode), fmt.Sprintf("timed transaction (timeout %v, %s at %v): observed %v, expected [%s]", timeout, []string{"no completion", "Success", "Fail"}[mode], at, dones, want), map[string]interface{}{"log": log.snapshot()})
			}
			c.Key("timed|%v|%d|%d", timeout, mode, frac)
			return
		}
		// ---- retry transaction ----
		rc := uint(c.I % 6)
		rd := rds[(c.I/6)%len(rds)]
		nprog := (c.I / 24) % 4
		final := (c.I / 96) % 3 // 0 none, 1 success, 2 fail
		fracs := []int{25, 50, 75, 10, 90}
		var sched []schedEv
		now := time.Duration(0)
		step := func() time.Duration {
			k := rng.Intn(int(rc) + 1) // whole retry periods elapsed before the event: 0..rc
			return time.Duration(k)*rd + rd*time.Duration(fracs[rng.Intn(len(fracs))])/100
		}
		for i := 0; i < nprog; i++ {
			now += step()
			sched = append(sched, schedEv{now, "proceed"})
		}
		if final != 0 {
			now += step()
			sched = append(sched, schedEv{now, []string{"", "success", "fail"}[final]})
		}
		// Callback behaviour by invocation number (1-based, over the whole transaction): a set bit in postMask
		// makes that invocation return ErrRetryPostponed (documented: "not counted", the timer just restarts);
		// cbErrAt > 0 makes that invocation return a custom error (the transaction fails with it at once).
		postMask, cbErrAt := uint(0), 0
		switch (c.I / 288) % 4 {
		case 1:
			postMask = uint(rng.Intn(256))
		case 2:
			postMask = uint(1)<<uint(rng.Intn(4)+1) - 1 // the first 1..4 invocations are postponed (client asleep, then awake)
		case 3:
			postMask = uint(rng.Intn(16))
			cbErrAt = 1 + rng.Intn(6)
		}
		c.Desc = fmt.Sprintf("retry rc=%d rd=%v events=%v postponeMask=%b cbErrAt=%d", rc, rd, sched, postMask, cbErrAt)
		// expected log by reference simulation, tick by tick
		var want []string
		{
			timerAt, counted, inv, data, finished := rd, 0, 0, 0, false
			tick := func() { // one timer expiry at timerAt
				if counted+1 > int(rc) {
					want = append(want, fmt.Sprintf("done:%v@%v", transactions.ErrNoMoreRetries, timerAt))
					finished = true
					return
				}
				inv++
				want = append(want, fmt.Sprintf("cb:%d@%v", data, timerAt))
				switch {
				case inv <= 8 && postMask&(1<<uint(inv-1)) != 0:
				case inv == cbErrAt:
					want = append(want, fmt.Sprintf("done:%v@%v", errCustom, timerAt))
					finished = true
					return
				default:
					counted++
				}
				timerAt += rd
			}
			for _, e := range sched {
				for !finished && timerAt < e.at {
					tick()
				}
				if finished {
					break
				}
				switch e.kind {
				case "proceed":
					counted, timerAt = 0, e.at+rd
					data++
				case "success":
					want = append(want, fmt.Sprintf("done:%v@%v", nil, e.at))
					finished = true
				case "fail":
					want = append(want, fmt.Sprintf("done:%v@%v", errCustom, e.at))
					finished = true
				}
			}
			for !finished {
				tick()
			}
		}
		var log txLog
		synctest.Test(t, func(t *testing.T) {
			log.t0 = time.Now()
			ctx, cancel := context.WithCancel(context.Background())
			defer cancel()
			var tx *transactions.RetryTransaction
			inv := 0
			tx = transactions.NewRetryTransaction(ctx, rd, rc, func(d interface{}) error {
				log.add("cb:%v", d)
				inv++
				if inv <= 8 && postMask&(1<<uint(inv-1)) != 0 {
					return transactions.ErrRetryPostponed
				}
				if inv == cbErrAt {
					return errCustom
				}
				return nil
			}, func() { log.add("finally") })
			stop := make(chan struct{})
			defer close(stop) // a transaction that never completes must not keep the bubble from ending: it shows as a missing event
			go func() {
				select {
				case <-tx.Done():
					log.add("done:%v", tx.Err())
				case <-stop:
				}
			}()
			tx.Proceed("s", 0)
			cur := time.Duration(0)
			d := 0
			for _, e := range sched {
				time.Sleep(e.at - cur)
				cur = e.at
				switch e.kind {
				case "proceed":
					d++
					tx.Proceed("s", d)
				case "success":
					tx.Success()
				case "fail":
					tx.Fail(errCustom)
				}
			}
			time.Sleep(time.Duration(rc+12) * rd)
			synctest.Wait()
		})
		var got []string
		for _, e := range log.snapshot() {
			if e[:3] == "cb:" || e[:5] == "done:" {
				got = append(got, e)
			}
		}
		if fmt.Sprint(got) != fmt.Sprint(want) {
			kind := "budget"
			if postMask != 0 {
				kind = "budget-with-postponed"
			}
			if len(got) > len(want) {
				kind = "extra-events"
			} else if len(got) < len(want) {
				kind = "missing-events"
			}
			c.Violation(fmt.Sprintf("retry|%s|final=%d", kind, final), fmt.Sprintf("retry transaction rc=%d rd=%v schedule %v: observed %v, expected %v", rc, rd, sched, got, want), map[string]interface{}{"observed": got, "expected": want, "full_log": log.snapshot()})
		}
		c.Key("retry|%d|%v|%d|%d|%d|%d|%d", rc, rd, nprog, final, len(want), postMask, cbErrAt)
		if c.I == 200 {
			r.Sample(map[string]interface{}{"retry_count": rc, "retry_delay": rd.String(), "schedule": fmt.Sprint(sched), "observed": got})
		}
	})
	r.Finish("one schedule per case, run on the real RetryTransaction / TimedTransaction in a synctest bubble (virtual time): RetryCount 0..5 x RetryDelay {1ms,250ms,1s,10s} x 0..3 Proceed events x final {none,Success,Fail}, each event placed k whole delays + {10,25,50,75,90}% of a delay after the previous reset (never on a tick), and the retry callback either always succeeds, returns ErrRetryPostponed on a random subset / prefix of its first 8 invocations (a postponed retry is not counted: the budget of RetryCount real retries must still follow), or returns a custom error at one invocation (the transaction fails with it at that tick); timed: timeout {1ms,1s,5s} x {no completion, Success, Fail at 1..99% of the timeout}; slow-callback cases: the k-th retry callback takes 10-70% of a delay and Proceed arrives while it runs (the full budget must follow the progress). Oracle: the exact list of (callback data, virtual time) and (Done, Err, virtual time) events equals a reference simulation. Distinct by (rc, rd, #progress, final, #expected events).", nil)
}
