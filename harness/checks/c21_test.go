package checks

import (
	"bytes"
	"fmt"
	"testing"

	pkts "github.com/energomonitor/bisquitt/packets"

	"verifharness/rt"
	"verifharness/snref"
)

// roundtrip is the C21 oracle for one packet described by a reference record.
func roundtrip(c *rt.Case, ref *snref.Pkt) {
	tn := snref.TypeName(ref.Type)
	pkt := toBisquitt(ref)
	out, err, pi := safePack(pkt)
	if pi != nil {
		c.Violation("pack-panic|"+tn+"|"+pi.Site, "Pack panics: "+pi.Msg, map[string]interface{}{"pkt": ref.String()})
		return
	}
	if err != nil {
		c.Violation("pack-error|"+tn, "Pack fails on legal field values: "+err.Error(), map[string]interface{}{"pkt": ref.String()})
		return
	}
	sizeClass := "<=255"
	if len(out) > 255 {
		sizeClass = ">255"
	}
	// (a) wire format by the spec
	got, perr := snref.Parse(out)
	if got == nil || (perr != nil && perr != snref.ErrLength) {
		c.Violation("wire-unparseable|"+tn+"|"+sizeClass, fmt.Sprintf("encoding of %s is not a well-formed packet (%v): %s", ref, perr, rt.Hex(cut(out, 48))), map[string]interface{}{"pkt": ref.String(), "hex": rt.Hex(cut(out, 400))})
		return
	}
	if got.DeclLen != len(out) {
		c.Violation("wire-length|"+tn+"|"+sizeClass, fmt.Sprintf("Length field %d != datagram size %d for %s", got.DeclLen, len(out), ref), map[string]interface{}{"pkt": ref.String(), "hex": rt.Hex(cut(out, 64))})
		return
	}
	if got.Long != (len(out) > 255) {
		c.Violation("wire-form|"+tn+"|"+sizeClass, fmt.Sprintf("3-byte Length form=%v for a %d-byte packet", got.Long, len(out)), map[string]interface{}{"pkt": ref.String()})
		return
	}
	if got.Type != ref.Type || !bytes.Equal(canon(got), canon(ref)) {
		c.Violation("wire-fields|"+tn+"|"+sizeClass, fmt.Sprintf("encoded fields differ from the inputs: built %s, wire says %s", ref, got), map[string]interface{}{"pkt": ref.String(), "hex": rt.Hex(cut(out, 64))})
		return
	}
	// (b) decode with bisquitt
	dec, derr, dpi := safeDecode(out)
	if dpi != nil {
		c.Violation("decode-panic|"+tn+"|"+dpi.Site, "decoding own encoding panics: "+dpi.Msg, map[string]interface{}{"pkt": ref.String()})
		return
	}
	if derr != nil {
		c.Violation("decode-error|"+tn+"|"+sizeClass, fmt.Sprintf("decoding own encoding of %s fails: %v", ref, derr), map[string]interface{}{"pkt": ref.String(), "hex": rt.Hex(cut(out, 64))})
		return
	}
	back := fromBisquitt(dec)
	if back == nil || back.Type != ref.Type || !bytes.Equal(canon(back), canon(ref)) {
		c.Violation("roundtrip-fields|"+tn+"|"+sizeClass, fmt.Sprintf("decode(encode(p)) != p: built %s, got back %s", ref, back), map[string]interface{}{"pkt": ref.String(), "hex": rt.Hex(cut(out, 64))})
		return
	}
	c.Key("%s|%s|%d", tn, sizeClass, len(out))
}

func TestC21(t *testing.T) {
	r := rt.Start(t, "C21")
	nRandom := r.N(100, 2500)
	per := 2000
	// case 0: short-topic bijection (exhaustive); case 1..28: boundary grid per type; rest: random
	total := 1 + len(snref.AllTypes) + nRandom
	r.Each(t, total, 0, func(i int) string {
		switch {
		case i == 0:
			return "short topic bijection, all 65536 ids"
		case i <= len(snref.AllTypes):
			return "boundary grid " + snref.TypeName(snref.AllTypes[i-1])
		}
		return fmt.Sprintf("random batch %d", i-1-len(snref.AllTypes))
	}, func(t *testing.T, c *rt.Case) {
		rng := c.Rand()
		switch {
		case c.I == 0:
			n := 0
			for id := 0; id < 0x10000; id++ {
				s := pkts.DecodeShortTopic(uint16(id))
				want := snref.ShortName(uint16(id))
				if s != want || len(s) != 2 {
					c.Violation("short-decode", fmt.Sprintf("DecodeShortTopic(%#04x)=%q, the two ID bytes are %q", id, s, want), nil)
				}
				if !pkts.IsShortTopic(s) {
					c.Violation("short-isshort", fmt.Sprintf("IsShortTopic(%q)=false", s), nil)
				}
				if back := pkts.EncodeShortTopic(s); back != uint16(id) {
					c.Violation("short-bijection", fmt.Sprintf("Encode(Decode(%#04x))=%#04x", id, back), nil)
				}
				// and the other direction for every 2-byte string (same enumeration)
				str := string([]byte{byte(id >> 8), byte(id)})
				if d := pkts.DecodeShortTopic(pkts.EncodeShortTopic(str)); d != str {
					c.Violation("short-bijection-str", fmt.Sprintf("Decode(Encode(%q))=%q", str, d), nil)
				}
				n++
			}
			c.Evals(n)
			c.Distinct(n)
			r.Count("short_ids", n)
		case c.I <= len(snref.AllTypes):
			ty := snref.AllTypes[c.I-1]
			n := 0
			// every total size around the 255/256 boundary and the payload maximum, for types with a variable field
			for _, size := range []int{0, 1, 2, 3, 240, 245, 246, 247, 248, 249, 250, 251, 252, 253, 254, 255, 256, 257, 258, 259, 260, 1000, 7167, 7168} {
				for rep := 0; rep < 8; rep++ {
					p := randomPktOfType(rng, ty, 7168)
					setVarLen(p, size, rng)
					roundtrip(c, p)
					n++
				}
			}
			// all flag combinations for flag-carrying types
			for f := 0; f < 256; f++ {
				p := randomPktOfType(rng, ty, 64)
				p.DUP, p.QoS, p.Retain, p.Will, p.Clean = f&0x80 != 0, uint8(f>>5)&3, f&0x10 != 0, f&8 != 0, f&4 != 0
				if ty == snref.PUBLISH {
					p.TIT = uint8((f & 3) % 3)
				}
				roundtrip(c, p)
				n++
			}
			c.Evals(n)
		default:
			for k := 0; k < per; k++ {
				roundtrip(c, randomValidPkt(rng, 7168))
			}
			c.Evals(per)
			if c.I == 1+len(snref.AllTypes) {
				p := randomValidPkt(rng, 40)
				b, _ := toBisquitt(p).Pack()
				r.Sample(map[string]interface{}{"built": p.String(), "encoded_hex": rt.Hex(cut(b, 80))})
			}
		}
	})
	r.Finish("packets built through bisquitt's public constructors from reference field records: (0) all 65536 short topic IDs and all 2-byte strings; (1..28) per type: variable-field sizes {0..3,240,245..260,1000,7167,7168} x 8 + all 256 flag-byte combinations; then random legal packets over all 28 types. Oracle: spec-table parse of the encoding (length field == size, 1-byte form iff size<=255, fields at spec offsets == inputs) and ReadPacket(Pack(p)) field-equal to p. distinct_nontrivial counts (type, size class) pairs that passed the full round trip + the 65536 exhaustive short IDs.", nil)
}

// setVarLen resizes the variable-length field of p (if it has one) to n bytes within the legal range.
func setVarLen(p *snref.Pkt, n int, rng interface{ Read([]byte) (int, error) }) {
	mk := func(n int) []byte { b := make([]byte, n); rng.Read(b); return b }
	atLeast := func(n, m int) int {
		if n < m {
			return m
		}
		return n
	}
	switch p.Type {
	case snref.GWINFO, snref.WILLMSG, snref.WILLMSGUPD, snref.PUBLISH:
		p.Data = mk(n)
	case snref.AUTH:
		p.Data = mk(n)
		if n%2 == 0 && n <= 255 {
			p.Name = string(mk(n))
		}
	case snref.CONNECT:
		p.ClientID = mk(atLeast(n, 1))
	case snref.PINGREQ:
		p.ClientID = mk(n)
	case snref.WILLTOPIC, snref.WILLTOPICUPD:
		p.Name = string(mk(n))
		if n == 0 {
			p.QoS, p.Retain = 0, false
		}
	case snref.REGISTER:
		p.Name = string(mk(atLeast(n, 1)))
	case snref.SUBSCRIBE, snref.UNSUBSCRIBE:
		if p.TIT == 0 {
			p.Name = string(mk(atLeast(n, 1)))
		}
	}
}
