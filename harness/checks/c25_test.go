package checks

import (
	"fmt"
	"math/rand"
	"sync"
	"sync/atomic"
	"testing"
	"testing/synctest"
	"time"

	"github.com/energomonitor/bisquitt/client"
	p1 "github.com/energomonitor/bisquitt/packets1"

	"verifharness/mqttref"
	"verifharness/rt"
	"verifharness/snref"
	"verifharness/world"
)

// c25pkt draws a decodable packet whose IDs and names come from small alphabets, so that it
// hits existing state (pending exchanges, registered topics) as often as it misses.
func c25pkt(rng *rand.Rand, types []byte) *snref.Pkt {
	t := types[rng.Intn(len(types))]
	p := randomPktOfType(rng, t, 40)
	small := []uint16{0, 1, 2, 3, 4, 5, 0xFFFF, 0xFFFE, 30000, 30001}
	if rng.Intn(5) > 0 {
		p.MsgID = small[rng.Intn(len(small))]
	}
	if rng.Intn(5) > 0 {
		p.TopicID = small[rng.Intn(len(small))]
	}
	names := []string{"a/b", "t/1", "ab", "pre/one", "t/#", "+", "", "x"}
	switch t {
	case snref.REGISTER, snref.WILLTOPIC, snref.WILLTOPICUPD:
		if rng.Intn(4) > 0 {
			p.Name = names[rng.Intn(len(names))]
		}
	case snref.SUBSCRIBE, snref.UNSUBSCRIBE:
		if p.TIT == 0 && rng.Intn(4) > 0 {
			p.Name = names[rng.Intn(len(names))]
			if p.Name == "" {
				p.Name = "e"
			}
		}
		if p.TIT == 2 {
			p.TopicID = snref.ShortID("ab")
		}
	case snref.CONNECT:
		p.ClientID = []byte("cl")
		p.Duration = []uint16{0, 1, 5, 60, 65535}[rng.Intn(5)]
	case snref.DISCONNECT:
		if p.HasDur {
			p.Duration = []uint16{1, 2, 10, 65535}[rng.Intn(4)]
		}
	case snref.PINGREQ:
		p.ClientID = [][]byte{nil, []byte("cl"), []byte("other")}[rng.Intn(3)]
	case snref.AUTH:
		if rng.Intn(2) == 0 {
			p.Name, p.Data = "PLAIN", []byte("\x00u\x00p")
		}
	}
	return p
}

var c25gaps = []time.Duration{0, 0, 0, time.Millisecond, 100 * time.Millisecond, time.Second, 4900 * time.Millisecond, 11 * time.Second, 61 * time.Second}

// c25gateway: a hostile MQTT-SN client (and an active broker) against one real gateway session.
func c25gateway(t *testing.T, r *rt.Run, c *rt.Case) {
	rng := c.Rand()
	cfg := world.GWConfig{Auth: rng.Intn(4) == 0, Predefined: stdPredefined(), RetryDelay: []time.Duration{time.Second, 10 * time.Second}[rng.Intn(2)], RetryCount: uint(rng.Intn(3))}
	bcfg := world.BrokerCfg{FirstID: []uint16{1, 30000, 0xFFFE}[rng.Intn(3)], Route: rng.Intn(2) == 0, ConnackRC: []byte{0, 0, 0, 5}[rng.Intn(4)], NoPuback: rng.Intn(6) == 0, NoSuback: rng.Intn(6) == 0, EnforceKA: rng.Intn(4) == 0}
	po := PeerOpts{NoAutoAck: rng.Intn(3) == 0, RegackRC: []byte{0, 0, 0, 2}[rng.Intn(4)], WillTopic: "w", WillMsg: []byte("m"), NoWillReply: rng.Intn(5) == 0}
	n := 5 + rng.Intn(40)
	var desc []string
	nev := 0
	bubble(t, func() {
		w := world.New(cfg)
		b := world.NewBroker(bcfg)
		s := w.NewSession(peerHandler(po), b.Handler())
		if bcfg.EnforceKA {
			b.Attach(s)
		}
		if rng.Intn(10) < 7 {
			s.SNSendP(snref.Connect("cl", []uint16{1, 5, 60}[rng.Intn(3)], rng.Intn(4) == 0, true))
			if cfg.Auth {
				s.SNSendP(snref.AuthPlain("u", []byte("p")))
			}
			synctest.Wait()
			if rng.Intn(2) == 0 {
				s.SNSendP(snref.SubscribeName(1, uint8(rng.Intn(3)), "#"))
				synctest.Wait()
			}
		}
		for i := 0; i < n; i++ {
			switch rng.Intn(10) {
			case 0, 1:
				topic := []string{"ab", "a/b", "pre/one", "new/x", "t/1", ""}[rng.Intn(6)]
				qos := byte(rng.Intn(3))
				desc = append(desc, fmt.Sprintf("broker PUBLISH %q q%d", topic, qos))
				b.Publish(s, topic, qos, rng.Intn(4) == 0, randBytes(rng, rng.Intn(20)))
			case 2:
				// a raw MQTT packet a broker should not send
				raw := c25brokerPkt(rng, uint16(1+rng.Intn(4)))
				desc = append(desc, fmt.Sprintf("broker raw %x", cut(raw, 12)))
				s.MQSend(raw)
			default:
				p := c25pkt(rng, snref.AllTypes)
				desc = append(desc, "client "+cutS(p.String(), 60))
				s.SNSendP(p)
			}
			if g := c25gaps[rng.Intn(len(c25gaps))]; g > 0 {
				time.Sleep(g)
				synctest.Wait()
			} else if rng.Intn(2) == 0 {
				synctest.Wait()
			}
			if s.Ended() && rng.Intn(3) > 0 {
				break
			}
		}
		time.Sleep(70 * time.Second)
		synctest.Wait()
		w.Finish()
		synctest.Wait()
		nev = w.Tr.Len()
		w.WaitHarness()
	})
	c.Desc = fmt.Sprintf("gateway-vs-hostile-client auth=%v: %v", cfg.Auth, desc)
	r.Count("gateway_front_events", nev)
	r.Count("gateway_front_cases", 1)
	c.Key("gw|%d|%d", c.I, nev)
}

// c25brokerPkt draws an MQTT packet as sent by a hostile broker (decodable by a standard codec in most cases).
func c25brokerPkt(rng *rand.Rand, mid uint16) []byte {
	ids := []uint16{mid, mid, 0, 1, 2, 0xFFFF, 30000}
	id := ids[rng.Intn(len(ids))]
	switch rng.Intn(16) {
	case 0:
		return mqttref.EncAck(mqttref.PUBACK, id)
	case 1:
		return mqttref.EncAck(mqttref.PUBREC, id)
	case 2:
		return mqttref.EncAck(mqttref.PUBREL, id)
	case 3:
		return mqttref.EncAck(mqttref.PUBCOMP, id)
	case 4:
		return mqttref.EncAck(mqttref.UNSUBACK, id)
	case 5:
		return mqttref.EncSuback(id, []byte{0, 1, 2, 0x80, 3, 0xFF}[rng.Intn(6)])
	case 6:
		return mqttref.EncSuback(id) // no return code at all
	case 7:
		return mqttref.EncSuback(id, 0, 1) // two return codes for one filter
	case 8:
		return mqttref.EncConnack(rng.Intn(2) == 0, byte(rng.Intn(7)))
	case 9:
		return mqttref.EncPingresp()
	case 10:
		return mqttref.EncSimple(mqttref.PINGREQ)
	case 11:
		return mqttref.EncSimple(mqttref.DISCONNECT)
	case 12:
		return mqttref.EncSubscribe(id, "x/#", byte(rng.Intn(3)))
	case 13:
		return mqttref.EncUnsubscribe(id, "x")
	case 14:
		return mqttref.EncConnect("broker", 10, 2, "", nil, "", nil)
	}
	// PUBLISH with odd flags: QoS 3, DUP with QoS 0, empty topic, wildcard topic, huge payload
	topic := []string{"ab", "", "a/#", "t/1", "pre/one", "\x00"}[rng.Intn(6)]
	b := mqttref.EncPublish(topic, id, byte(rng.Intn(3)), rng.Intn(2) == 0, rng.Intn(2) == 0, randBytes(rng, []int{0, 1, 30, 9000}[rng.Intn(4)]))
	if rng.Intn(4) == 0 {
		b[0] |= 0x06 // QoS 3
	}
	return b
}

// c25broker: a hostile broker against the gateway session of a well-behaved client.
func c25broker(t *testing.T, r *rt.Run, c *rt.Case) {
	rng := c.Rand()
	cfg := world.GWConfig{Predefined: stdPredefined(), RetryDelay: []time.Duration{time.Second, 10 * time.Second}[rng.Intn(2)], RetryCount: uint(rng.Intn(3))}
	hostility := []int{2, 4, 10}[rng.Intn(3)] // 1 in `hostility` answers is wrong
	nev := 0
	bubble(t, func() {
		w := world.New(cfg)
		good := world.NewBroker(world.BrokerCfg{FirstID: 1, Route: true})
		goodH := good.Handler()
		var mu sync.Mutex
		sent := 0
		s := w.NewSession(peerHandler(PeerOpts{WillTopic: "w", WillMsg: []byte("m")}), func(s *world.Session, p *mqttref.Pkt) {
			mu.Lock()
			k := rng.Intn(hostility)
			extra := rng.Intn(3) == 0
			var raw, raw2 []byte
			if k == 0 {
				raw = c25brokerPkt(rng, p.MsgID)
			}
			if extra {
				raw2 = c25brokerPkt(rng, p.MsgID)
			}
			sent++
			over := sent > 300
			mu.Unlock()
			if over {
				return
			}
			if k == 0 {
				s.MQSend(raw)
			} else {
				goodH(s, p)
			}
			if extra {
				s.MQSend(raw2)
			}
		})
		mid := uint16(0)
		next := func() uint16 { mid++; return mid }
		s.SNSendP(snref.Connect("cl", []uint16{2, 30}[rng.Intn(2)], rng.Intn(3) == 0, true))
		synctest.Wait()
		for i := 0; i < 5+rng.Intn(25) && !s.Ended(); i++ {
			switch rng.Intn(9) {
			case 0:
				s.SNSendP(snref.SubscribeName(next(), uint8(rng.Intn(3)), []string{"#", "a/b", "t/+"}[rng.Intn(3)]))
			case 1:
				s.SNSendP(snref.Register(0, next(), []string{"a/b", "t/1"}[rng.Intn(2)]))
			case 2, 3:
				s.SNSendP(snref.Publish(2, snref.ShortID("ab"), next(), uint8(rng.Intn(3)), false, false, []byte("x")))
			case 4:
				s.SNSendP(snref.MsgOnly(snref.PUBREL, mid))
			case 5:
				s.SNSendP(snref.Pingreq(""))
			case 6:
				s.SNSendP(snref.Sleep(uint16(1 + rng.Intn(5))))
				time.Sleep(time.Second)
				s.SNSendP(snref.Pingreq("cl"))
			case 7:
				s.SNSendP(snref.UnsubscribeName(next(), "a/b"))
			case 8:
				s.MQSend(c25brokerPkt(rng, mid)) // unsolicited
			}
			if g := c25gaps[rng.Intn(len(c25gaps))]; g > 0 {
				time.Sleep(g)
			}
			if rng.Intn(3) > 0 {
				synctest.Wait()
			}
		}
		time.Sleep(40 * time.Second)
		synctest.Wait()
		w.Finish()
		synctest.Wait()
		nev = w.Tr.Len()
		w.WaitHarness()
	})
	c.Desc = fmt.Sprintf("gateway-vs-hostile-broker hostility 1/%d", hostility)
	r.Count("broker_front_events", nev)
	r.Count("broker_front_cases", 1)
	c.Key("br|%d|%d", c.I, nev)
}

// c25client: a hostile gateway against the real client library with API calls in flight.
func c25client(t *testing.T, r *rt.Run, c *rt.Case) {
	rng := c.Rand()
	hostility := []int{2, 3, 8}[rng.Intn(3)]
	ka := []time.Duration{0, 2 * time.Second, 30 * time.Second}[rng.Intn(3)]
	nev := 0
	var calls int32
	bubble(t, func() {
		tr := world.NewTrace()
		sg := newSimpleGw()
		normal := sg.handler()
		var mu sync.Mutex
		sent := 0
		gwTypes := snref.AllTypes
		g := world.NewGwPeer(tr, 0, func(g *world.GwPeer, p *snref.Pkt, raw []byte) {
			mu.Lock()
			k := rng.Intn(hostility)
			extra := rng.Intn(3) == 0
			var hp, hp2 *snref.Pkt
			if k == 0 {
				hp = c25pkt(rng, gwTypes)
				if p != nil && rng.Intn(2) == 0 {
					hp.MsgID = p.MsgID
				}
			}
			if extra {
				hp2 = c25pkt(rng, gwTypes)
				if p != nil && rng.Intn(2) == 0 {
					hp2.MsgID = p.MsgID
				}
			}
			sent++
			over := sent > 200
			mu.Unlock()
			if over {
				return
			}
			if k == 0 {
				g.Send(hp)
			} else {
				normal(g, p, raw)
			}
			if extra {
				g.Send(hp2)
			}
		})
		cfg := stdClientCfg("cl")
		cfg.KeepAlive = ka
		cfg.RetryDelay = []time.Duration{time.Second, 10 * time.Second}[rng.Intn(2)]
		cfg.RetryCount = uint(rng.Intn(3))
		cfg.PredefinedTopics = stdPredefined()
		if rng.Intn(3) == 0 {
			cfg.WillTopic, cfg.WillPayload = "w", []byte("m")
		}
		cl := newClientOn(g.Link.A, cfg)
		cl.Dial("mem")
		cb := func(*client.Client, string, *p1.Publish) {}
		api := []func(){
			func() { cl.Connect() },
			func() { cl.Register([]string{"a/b", "t/1"}[rng.Intn(2)]) },
			func() { cl.Subscribe([]string{"#", "a/b", "ab", "t/+"}[rng.Intn(4)], uint8(rng.Intn(3)), cb) },
			func() { cl.SubscribePredefined(uint16(1+rng.Intn(3)), 1, cb) },
			func() { cl.Publish("ab", []byte("x"), uint8(rng.Intn(4)), false) },
			func() { cl.Publish("a/b", []byte("x"), uint8(rng.Intn(3)), false) },
			func() { cl.PublishPredefined(uint16(1+rng.Intn(3)), []byte("x"), uint8(rng.Intn(4)), false) },
			func() { cl.Unsubscribe("a/b") },
			func() { cl.Ping() },
			func() { cl.Sleep(time.Duration(1+rng.Intn(3)) * time.Second) },
			func() { cl.Disconnect() },
		}
		var wg sync.WaitGroup
		run := func(f func()) {
			wg.Add(1)
			atomic.AddInt32(&calls, 1)
			go func() { defer wg.Done(); f() }()
		}
		run(api[0])
		synctest.Wait()
		for i := 0; i < 3+rng.Intn(10); i++ {
			mu.Lock()
			k := rng.Intn(len(api))
			gap := c25gaps[rng.Intn(len(c25gaps))]
			unsolicited := rng.Intn(4) == 0
			var up *snref.Pkt
			if unsolicited {
				up = c25pkt(rng, gwTypes)
			}
			mu.Unlock()
			run(api[k])
			if unsolicited {
				g.Send(up)
			}
			if gap > 0 {
				time.Sleep(gap)
			}
			synctest.Wait()
		}
		time.Sleep(200 * time.Second)
		synctest.Wait()
		// calls that never return are C28's subject; here they would keep the bubble from ending
		waited := make(chan struct{})
		go func() { cl.Close(); wg.Wait(); close(waited) }()
		for i := 0; i < 120; i++ { // Close() itself may take (RetryCount+1) x RetryDelay
			synctest.Wait()
			select {
			case <-waited:
				i = 1000
			default:
				time.Sleep(time.Second)
			}
		}
		g.Close()
		synctest.Wait()
		nev = tr.Len()
		select {
		case <-waited:
		default:
			c.Inconclusive("an API call or Close did not return (judged by C28); the process restarts")
			c.MarkDone()
			c.R.ExitNow()
		}
	})
	c.Desc = fmt.Sprintf("client-vs-hostile-gateway hostility 1/%d keepalive %v", hostility, ka)
	r.Count("client_front_events", nev)
	r.Count("client_front_api_calls", int(calls))
	r.Count("client_front_cases", 1)
	c.Key("cl|%d|%d", c.I, nev)
}

// c25terminated: the gateway ends the client (DISCONNECT or an undecodable datagram) while some API
// calls are blocked, and further calls of every kind start at that very instant.
func c25terminated(t *testing.T, r *rt.Run, c *rt.Case) {
	rng := c.Rand()
	nBlocked := 1 + rng.Intn(3)
	nNew := 1 + rng.Intn(4)
	how := rng.Intn(3)
	ka := []time.Duration{0, 2 * time.Second}[rng.Intn(2)]
	reps := 12
	for rep := 0; rep < reps; rep++ {
		bubble(t, func() {
			tr := world.NewTrace()
			sg := newSimpleGw()
			normal := sg.handler()
			g := world.NewGwPeer(tr, 0, func(g *world.GwPeer, p *snref.Pkt, raw []byte) {
				if p != nil && (p.Type == snref.PUBLISH || p.Type == snref.SUBSCRIBE || p.Type == snref.REGISTER) {
					return // unanswered: the call blocks
				}
				normal(g, p, raw)
			})
			cfg := stdClientCfg("cl")
			cfg.KeepAlive = ka
			cl := newClientOn(g.Link.A, cfg)
			cl.Dial("mem")
			cl.Connect()
			cb := func(*client.Client, string, *p1.Publish) {}
			calls := []func(){
				func() { cl.Publish("ab", []byte("x"), 1, false) },
				func() { cl.Subscribe("t/x", 1, cb) },
				func() { cl.Register("t/r") },
				func() { cl.Sleep(time.Second) },
				func() { cl.Ping() },
				func() { cl.Disconnect() },
				func() { cl.Publish("ab", []byte("y"), 2, false) },
				func() { cl.Connect() },
				func() { cl.Unsubscribe("t/x") },
			}
			var wg sync.WaitGroup
			for k := 0; k < nBlocked; k++ {
				f := calls[(c.I+k)%3]
				wg.Add(1)
				go func() { defer wg.Done(); f() }()
			}
			synctest.Wait()
			switch how {
			case 0:
				g.Send(snref.Disconnect())
			case 1:
				g.SendRaw([]byte{0x03, 0x19, 0x00})
			case 2:
				go cl.Close()
			}
			for k := 0; k < nNew; k++ {
				f := calls[(c.I+rep+k*2)%len(calls)]
				wg.Add(1)
				go func() { defer wg.Done(); f() }()
			}
			done := make(chan struct{})
			go func() { wg.Wait(); cl.Close(); close(done) }()
			for i := 0; i < 200; i++ {
				synctest.Wait()
				select {
				case <-done:
					i = 1000
				default:
					time.Sleep(time.Second)
				}
			}
			g.Close()
			synctest.Wait()
			select {
			case <-done:
			default:
				c.Inconclusive("an API call did not return (judged by C28); the process restarts")
				c.MarkDone()
				c.R.ExitNow()
			}
		})
	}
	c.Desc = fmt.Sprintf("client terminated (how=%d) with %d blocked calls while %d new calls start, keepalive %v, %d repetitions", how, nBlocked, nNew, ka, reps)
	r.Count("terminated_client_cases", reps)
	c.Key("term|%d", c.I)
}

func TestC25(t *testing.T) {
	r := rt.Start(t, "C25")
	nG, nB, nC, nT := r.N(6000, 120000), r.N(4000, 80000), r.N(4000, 80000), r.N(300, 6000)
	r.Each(t, nG+nB+nC+nT, 0, func(i int) string {
		if i >= nG+nB+nC {
			return fmt.Sprintf("client-terminated-with-calls-in-flight#%d", i-nG-nB-nC)
		}
		switch {
		case i < nG:
			return fmt.Sprintf("gateway-vs-hostile-client#%d", i)
		case i < nG+nB:
			return fmt.Sprintf("gateway-vs-hostile-broker#%d", i-nG)
		}
		return fmt.Sprintf("client-vs-hostile-gateway#%d", i-nG-nB)
	}, func(t *testing.T, c *rt.Case) {
		switch {
		case c.I >= nG+nB+nC:
			c25terminated(t, r, c)
		case c.I < nG:
			c25gateway(t, r, c)
		case c.I < nG+nB:
			c25broker(t, r, c)
		default:
			c25client(t, r, c)
		}
		if c.I == 3 || c.I == nG+3 || c.I == nG+nB+3 {
			r.Sample(map[string]interface{}{"case": c.Desc})
		}
	})
	r.Finish("stateful fuzzing on three fronts in virtual time, decodable packets only. (1) hostile MQTT-SN client -> real gateway session: 5-45 steps of random packets of all 28 types (message IDs, topic IDs and names from small alphabets so that they hit pending exchanges and registered topics), broker publishes and raw broker packets, gaps {0, 1 ms, 0.1 s, 1 s, 4.9 s, 11 s, 61 s}, with and without waiting for quiescence between steps (the receive loops race), auth on/off, broker variants; (2) hostile broker -> gateway session of a well-behaved client: every 2nd/4th/10th broker answer replaced by a random MQTT packet (acks with wrong IDs, SUBACK with 0/2 codes, CONNECT/SUBSCRIBE/PINGREQ/DISCONNECT from the broker, PUBLISH with QoS 3 / empty / wildcard topic / 9000-byte payload), plus unsolicited ones; (3) hostile gateway -> real client library with 3-13 API calls started concurrently (keep-alive off/2 s/30 s): every 2nd/3rd/8th answer replaced by a random packet of any type (often with the request's message ID), plus unsolicited packets; (4) the gateway ends the client (DISCONNECT, undecodable datagram, or the application calls Close) while 1-3 API calls are blocked and 1-4 further calls of every kind start at that very instant, 12 repetitions per case. Oracle: the process survives - a panic, fatal error, failed type assertion or synctest deadlock in any goroutine kills the child process, which the driver pins to the case by re-running the pending cases serially; the 'race' phase repeats the list under the race detector (reports are listed as diagnostics).", nil)
}
