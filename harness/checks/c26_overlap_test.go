package checks

import (
	"fmt"
	"strings"
	"testing"
	"testing/synctest"
	"time"

	"github.com/energomonitor/bisquitt/client"
	p1 "github.com/energomonitor/bisquitt/packets1"

	"verifharness/rt"
	"verifharness/snref"
	"verifharness/world"
)

// c26overlapCase: two API calls on ONE topic filter are in progress at the same time (the application
// calls them from two goroutines); the scripted gateway - behaving like a conforming one - answers
// them in a chosen order with chosen return codes. Afterwards it delivers a message on the topic.
type c26overlapCase struct {
	kind     string // "sub-sub", "sub-unsub", "unsub-sub"
	topic    string
	rc1, rc2 byte // return codes of the first / second call's acknowledgement (0 = accepted)
	swap     bool // the second call's acknowledgement is sent first
	gap      time.Duration
}

func (k c26overlapCase) String() string {
	return fmt.Sprintf("%s on %q: first call answered rc=%d, second rc=%d, acknowledgements swapped=%v, %v apart", k.kind, k.topic, k.rc1, k.rc2, k.swap, k.gap)
}

func c26overlapCases() []c26overlapCase {
	var out []c26overlapCase
	for _, kind := range []string{"sub-sub", "sub-unsub", "unsub-sub"} {
		for _, topic := range []string{"t/x", "ab", "t/#"} {
			for _, rc1 := range []byte{0, 3} {
				for _, rc2 := range []byte{0, 3} {
					if kind != "sub-sub" && (rc1 != 0 || rc2 != 0) {
						if kind == "sub-unsub" && rc2 != 0 {
							continue // UNSUBACK has no return code
						}
						if kind == "unsub-sub" && rc1 != 0 {
							continue
						}
					}
					for _, swap := range []bool{false, true} {
						for _, gap := range []time.Duration{0, time.Millisecond} {
							out = append(out, c26overlapCase{kind, topic, rc1, rc2, swap, gap})
						}
					}
				}
			}
		}
	}
	// REGISTER and SUBSCRIBE (or two REGISTERs) of one topic name in progress at once: the (conforming)
	// gateway gives both the same TopicID; afterwards Publish on the name must work and use that ID
	for _, kind := range []string{"reg-reg", "reg-sub", "sub-reg"} {
		for _, rc1 := range []byte{0, 3} {
			for _, rc2 := range []byte{0, 3} {
				for _, swap := range []bool{false, true} {
					out = append(out, c26overlapCase{kind, "t/x", rc1, rc2, swap, 0})
				}
			}
		}
	}
	return out
}

// c26overlapRun runs one case. It reports through c.
func c26overlapRun(t *testing.T, r *rt.Run, c *rt.Case, k c26overlapCase) {
	c.Desc = "overlapping calls (client library, scripted conforming gateway): " + k.String()
	var evs []world.Ev
	var errs [2]error
	var returned [2]bool
	const tid = 7
	bubble(t, func() {
		tr := world.NewTrace()
		type pend struct {
			typ byte
			mid uint16
		}
		var pending []pend
		g := world.NewGwPeer(tr, 0, func(g *world.GwPeer, p *snref.Pkt, raw []byte) {
			if p == nil {
				return
			}
			switch p.Type {
			case snref.CONNECT:
				g.Send(snref.Connack(0))
			case snref.SUBSCRIBE, snref.UNSUBSCRIBE, snref.REGISTER:
				pending = append(pending, pend{p.Type, p.MsgID})
			case snref.PUBLISH:
				tr.Add(0, world.Note, nil, fmt.Sprintf("client-publish tit=%d tid=%d", p.TIT, p.TopicID))
			case snref.PUBACK, snref.REGACK:
			case snref.DISCONNECT:
				g.Send(snref.Disconnect())
			}
		})
		cl := newClientOn(g.Link.A, stdClientCfg("cl"))
		cl.Dial("mem")
		if err := cl.Connect(); err != nil {
			c.Inconclusive("connect: " + err.Error())
			return
		}
		ack := func(p pend, rc byte) {
			if p.typ == snref.REGISTER {
				id := uint16(0)
				if rc == 0 {
					id = tid
				}
				g.Send(snref.Regack(id, p.mid, rc))
			} else if p.typ == snref.SUBSCRIBE {
				id := uint16(0)
				if k.topic == "t/x" && rc == 0 {
					id = tid
				}
				g.Send(snref.Suback(id, p.mid, rc, 1))
			} else {
				g.Send(snref.MsgOnly(snref.UNSUBACK, p.mid))
			}
		}
		a := newAPI(tr, 0)
		isReg := strings.Contains(k.kind, "reg")
		if k.kind != "sub-sub" && !isReg {
			// the filter is subscribed (callback "old") before the overlapping pair starts
			n := a.Go("Subscribe(old)", func() error { return cl.Subscribe(k.topic, 1, cbRecorder(tr, 0, "old")) })
			synctest.Wait()
			if len(pending) == 1 {
				ack(pending[0], 0)
				pending = nil
			}
			synctest.Wait()
			if err, ok := a.Result(n); !ok || err != nil {
				c.Inconclusive(fmt.Sprintf("setup Subscribe: returned=%v err=%v", ok, err))
				return
			}
		}
		call := func(i int) int {
			if isReg {
				if (k.kind == "reg-sub" && i == 1) || (k.kind == "sub-reg" && i == 0) {
					name := fmt.Sprintf("cb%d", i+1)
					return a.Go("Subscribe("+name+")", func() error { return cl.Subscribe(k.topic, 1, cbRecorder(tr, 0, name)) })
				}
				return a.Go("Register", func() error { return cl.Register(k.topic) })
			}
			sub := (k.kind == "sub-sub") || (k.kind == "sub-unsub" && i == 0) || (k.kind == "unsub-sub" && i == 1)
			if sub {
				name := fmt.Sprintf("cb%d", i+1)
				return a.Go("Subscribe("+name+")", func() error { return cl.Subscribe(k.topic, 1, cbRecorder(tr, 0, name)) })
			}
			return a.Go("Unsubscribe", func() error { return cl.Unsubscribe(k.topic) })
		}
		n1 := call(0)
		synctest.Wait() // the first request is on the wire before the second call starts
		n2 := call(1)
		synctest.Wait()
		if len(pending) != 2 {
			c.Inconclusive(fmt.Sprintf("expected two outstanding requests, the gateway has %d", len(pending)))
			return
		}
		first, second := pending[0], pending[1]
		if k.swap {
			ack(second, k.rc2)
			if k.gap > 0 {
				time.Sleep(k.gap)
			}
			ack(first, k.rc1)
		} else {
			ack(first, k.rc1)
			if k.gap > 0 {
				time.Sleep(k.gap)
			}
			ack(second, k.rc2)
		}
		time.Sleep(time.Second)
		synctest.Wait()
		errs[0], returned[0] = a.Result(n1)
		errs[1], returned[1] = a.Result(n2)
		if isReg {
			// the name has a TopicID iff one of the two calls was accepted: then Publish works and uses it
			tr.Add(0, world.Note, nil, "message")
			perr := cl.Publish(k.topic, []byte("up"), 0, false)
			synctest.Wait()
			tr.Add(0, world.Note, nil, fmt.Sprintf("publish-result %v", perr))
			tr.Add(0, world.Note, nil, "teardown")
			cl.Close()
			time.Sleep(3 * time.Second)
			g.Close()
			synctest.Wait()
			evs = tr.Events()
			return
		}
		tr.Add(0, world.Note, nil, "message")
		// a message on the topic, as a conforming gateway with that subscription would deliver it
		switch k.topic {
		case "ab":
			g.Send(snref.Publish(2, snref.ShortID("ab"), 0, 0, false, false, []byte("m")))
		case "t/x":
			// the TopicID is known to the client from an accepted SUBACK; otherwise the gateway registers it first
			g.Send(snref.Register(tid, 900, "t/x"))
			synctest.Wait()
			g.Send(snref.Publish(0, tid, 0, 0, false, false, []byte("m")))
		default:
			g.Send(snref.Register(9, 901, "t/y"))
			synctest.Wait()
			g.Send(snref.Publish(0, 9, 0, 0, false, false, []byte("m")))
		}
		time.Sleep(time.Second)
		synctest.Wait()
		tr.Add(0, world.Note, nil, "teardown")
		cl.Close()
		time.Sleep(3 * time.Second)
		g.Close()
		synctest.Wait()
		evs = tr.Events()
	})
	if evs == nil {
		return
	}
	witness := map[string]interface{}{"case": k.String(), "trace": world.Strings(evs, 80)}
	for i := 0; i < 2; i++ {
		if !returned[i] {
			c.Violation(fmt.Sprintf("overlap|call-hangs|%s|call%d", k.kind, i+1), fmt.Sprintf("call %d did not return: %s", i+1, k), witness)
			return
		}
	}
	if strings.Contains(k.kind, "reg") {
		okc := func(i int, rc byte) bool { return (errs[i] == nil) == (rc == 0) }
		if !okc(0, k.rc1) || !okc(1, k.rc2) {
			c.Violation(fmt.Sprintf("overlap|result-mismatch|%s", k.kind), fmt.Sprintf("%s: calls returned (%v, %v)", k, errs[0], errs[1]), witness)
		}
		pubRes, pubWire := "", ""
		for _, e := range evs {
			if e.Kind == world.Note && strings.HasPrefix(e.Note, "publish-result ") {
				pubRes = strings.TrimPrefix(e.Note, "publish-result ")
			}
			if e.Kind == world.Note && strings.HasPrefix(e.Note, "client-publish ") {
				pubWire = strings.TrimPrefix(e.Note, "client-publish ")
			}
		}
		known := k.rc1 == 0 || k.rc2 == 0
		if known && (pubRes != "<nil>" || pubWire != fmt.Sprintf("tit=0 tid=%d", tid)) {
			c.Violation(fmt.Sprintf("overlap|publish-after-registration|%s|rc=%d,%d|swapped=%v", k.kind, k.rc1, k.rc2, k.swap), fmt.Sprintf("%s: the name got TopicID %d from an accepted call, but Publish returned %s and sent [%s]", k, tid, pubRes, pubWire), witness)
		}
		if !known && pubWire != "" {
			c.Violation(fmt.Sprintf("overlap|publish-with-refused-id|%s", k.kind), fmt.Sprintf("%s: both calls were refused but Publish sent [%s]", k, pubWire), witness)
		}
		r.Observe("overlapping calls outcome", fmt.Sprintf("%s rc=%d,%d swapped=%v: publish %s [%s]", k.kind, k.rc1, k.rc2, k.swap, pubRes, pubWire))
		r.Count("overlap_cases", 1)
		c.Key("overlap|%s", k)
		return
	}
	// which callbacks ran for the message
	var ran []string
	after := false
	for _, e := range evs {
		if e.Kind == world.Note && e.Note == "message" {
			after = true
		}
		if e.Kind == world.Note && e.Note == "teardown" {
			break
		}
		if after && e.Kind == world.CB {
			f := e.Note
			if i := strings.Index(f, "filter=\""); i >= 0 {
				f = f[i+8:]
				f = f[:strings.Index(f, "\"")]
			}
			ran = append(ran, f)
		}
	}
	// Expectation. API results must mirror the acknowledgements; then:
	//  - the subscription of the LAST call that succeeded decides: an accepted Subscribe whose acknowledgement
	//    was not followed by an accepted Unsubscribe leaves a subscription at the broker: the message must reach
	//    a callback of an accepted Subscribe (or "old" if no new Subscribe was accepted); never nobody.
	okc := func(i int, rc byte) bool { return (errs[i] == nil) == (rc == 0) }
	if !okc(0, k.rc1) || !okc(1, k.rc2) {
		c.Violation(fmt.Sprintf("overlap|result-mismatch|%s", k.kind), fmt.Sprintf("%s: calls returned (%v, %v)", k, errs[0], errs[1]), witness)
	}
	subscribedAtBroker := false
	allowed := map[string]bool{}
	switch k.kind {
	case "sub-sub":
		subscribedAtBroker = k.rc1 == 0 || k.rc2 == 0
		if k.rc1 == 0 {
			allowed["cb1"] = true
		}
		if k.rc2 == 0 {
			allowed["cb2"] = true
		}
	case "sub-unsub":
		// the broker processed SUBSCRIBE then UNSUBSCRIBE (the order on the wire): not subscribed afterwards;
		// a conforming gateway would not deliver - the message is a late/stray one, nothing is required
		subscribedAtBroker = false
	case "unsub-sub":
		subscribedAtBroker = k.rc2 == 0
		if k.rc2 == 0 {
			allowed["cb2"] = true
		} else {
			subscribedAtBroker = false // unsubscribed, the new subscription refused
		}
	}
	if k.kind != "sub-sub" && okc(0, k.rc1) && okc(1, k.rc2) {
		// the Unsubscribe was called after Subscribe(old) had returned and it succeeded: whatever becomes of the
		// other call, the callback it revoked is not invoked any more (C27: 'once Unsubscribe succeeds that
		// filter's callback is no longer invoked')
		for _, f := range ran {
			if f == "old" {
				c.Violation(fmt.Sprintf("overlap|unsubscribed-callback-ran|%s|rc=%d,%d|swapped=%v", k.kind, k.rc1, k.rc2, k.swap), fmt.Sprintf("%s: Unsubscribe returned nil, yet the callback of the subscription it ended ran for a later message", k), witness)
			}
		}
	}
	if subscribedAtBroker {
		if len(ran) == 0 {
			c.Violation(fmt.Sprintf("overlap|message-not-delivered|%s|rc=%d,%d|swapped=%v", k.kind, k.rc1, k.rc2, k.swap), fmt.Sprintf("%s: the subscription exists (a Subscribe call returned nil) but no callback ran for the message", k), witness)
		}
		for _, f := range ran {
			if !allowed[f] {
				c.Violation(fmt.Sprintf("overlap|wrong-callback|%s|rc=%d,%d|swapped=%v", k.kind, k.rc1, k.rc2, k.swap), fmt.Sprintf("%s: callback %q ran, only %v belong to accepted subscriptions", k, f, allowed), witness)
			}
		}
	}
	r.Observe("overlapping calls outcome", fmt.Sprintf("%s rc=%d,%d swapped=%v: callbacks %v", k.kind, k.rc1, k.rc2, k.swap, ran))
	r.Count("overlap_cases", 1)
	c.Key("overlap|%s", k)
	_ = client.ClientConfig{}
	_ = p1.Publish{}
}
