package checks

import (
	"bytes"
	"fmt"
	"math/rand"
	"strings"
	"testing"
	"testing/synctest"
	"time"

	"github.com/energomonitor/bisquitt/client"
	p1 "github.com/energomonitor/bisquitt/packets1"
	"github.com/energomonitor/bisquitt/topics"

	"verifharness/mqttref"
	"verifharness/rt"
	"verifharness/world"
)

// c26op is one step of an API program.
type c26op struct {
	kind   string // register subscribe subpre unsubscribe unsubpre publish pubpre ping sleep connect third burst disconnect
	topic  string
	id     uint16
	qos    uint8
	retain bool
	n      int           // burst size
	d      time.Duration // sleep duration
	during []c26op       // broker traffic while asleep (kind third/burst)
}

func (o c26op) String() string {
	switch o.kind {
	case "register", "unsubscribe":
		return fmt.Sprintf("%s(%q)", o.kind, o.topic)
	case "subscribe":
		return fmt.Sprintf("subscribe(%q,q%d)", o.topic, o.qos)
	case "subpre":
		return fmt.Sprintf("subscribePredefined(%d,q%d)", o.id, o.qos)
	case "unsubpre":
		return fmt.Sprintf("unsubscribePredefined(%d)", o.id)
	case "publish":
		return fmt.Sprintf("publish(%q,q%d,r=%v)", o.topic, o.qos, o.retain)
	case "pubpre":
		return fmt.Sprintf("publishPredefined(%d,q%d,r=%v)", o.id, o.qos, o.retain)
	case "third":
		return fmt.Sprintf("broker-publish(%q,q%d)", o.topic, o.qos)
	case "burst":
		return fmt.Sprintf("broker-burst(%q,q%d,x%d)", o.topic, o.qos, o.n)
	case "sleep":
		var in []string
		for _, x := range o.during {
			in = append(in, x.String())
		}
		return fmt.Sprintf("sleep(%v){%s}", o.d, strings.Join(in, ","))
	}
	return o.kind
}

func c26Predefined() topics.PredefinedTopics {
	return topics.PredefinedTopics{"*": {1: "pre/one", 3: "pre/three"}, "cl": {2: "pre/two", 3: "pre/cl3"}}
}

var c26PreName = map[uint16]string{1: "pre/one", 2: "pre/two", 3: "pre/cl3"}

// c26gen generates a legal API program (legal = what the library documents: Publish needs a
// registered or short topic; after Sleep only Sleep/Connect/Disconnect may follow).
func c26gen(rng *rand.Rand) []c26op {
	names := []string{"t/a", "t/b", "u/x/y", "ab", "cd"}
	filters := []string{"t/#", "+/x/+", "#", "t/+", "u/#", "+"}
	newNames := []string{"t/n1", "t/n2", "u/x/n3", "t/n4/deep", "zz"}
	known := map[string]bool{"ab": true, "cd": true}
	var prog []c26op
	n := 5 + rng.Intn(26)
	asleep := false
	third := func() c26op {
		all := append(append([]string{}, names...), newNames...)
		all = append(all, "pre/one", "pre/two", "pre/cl3", "pre/three")
		if rng.Intn(4) == 0 {
			return c26op{kind: "burst", topic: newNames[rng.Intn(len(newNames))], qos: uint8(rng.Intn(3)), n: 2 + rng.Intn(9)}
		}
		return c26op{kind: "third", topic: all[rng.Intn(len(all))], qos: uint8(rng.Intn(3))}
	}
	for len(prog) < n {
		if asleep {
			if rng.Intn(3) == 0 {
				prog = append(prog, c26op{kind: "connect"})
				asleep = false
				continue
			}
		}
		k := rng.Intn(100)
		if asleep {
			k = 95 // another sleep cycle
		}
		switch {
		case k < 10:
			t := names[rng.Intn(3)]
			prog = append(prog, c26op{kind: "register", topic: t})
			known[t] = true
		case k < 28:
			if rng.Intn(2) == 0 {
				prog = append(prog, c26op{kind: "subscribe", topic: filters[rng.Intn(len(filters))], qos: uint8(rng.Intn(3))})
			} else {
				t := names[rng.Intn(len(names))]
				prog = append(prog, c26op{kind: "subscribe", topic: t, qos: uint8(rng.Intn(3))})
				known[t] = true
			}
		case k < 34:
			prog = append(prog, c26op{kind: "subpre", id: uint16(1 + rng.Intn(3)), qos: uint8(rng.Intn(3))})
		case k < 40:
			all := append(append([]string{}, names...), filters...)
			prog = append(prog, c26op{kind: "unsubscribe", topic: all[rng.Intn(len(all))]})
		case k < 43:
			prog = append(prog, c26op{kind: "unsubpre", id: uint16(1 + rng.Intn(3))})
		case k < 62:
			var ks []string
			for _, t := range names {
				if known[t] {
					ks = append(ks, t)
				}
			}
			prog = append(prog, c26op{kind: "publish", topic: ks[rng.Intn(len(ks))], qos: uint8(rng.Intn(4)), retain: rng.Intn(4) == 0})
		case k < 68:
			prog = append(prog, c26op{kind: "pubpre", id: uint16(1 + rng.Intn(3)), qos: uint8(rng.Intn(4)), retain: rng.Intn(4) == 0})
		case k < 72:
			prog = append(prog, c26op{kind: "ping"})
		case k < 90:
			prog = append(prog, third())
		default:
			op := c26op{kind: "sleep", d: []time.Duration{2 * time.Second, 20 * time.Second, 100 * time.Second, 2 * time.Second, 20 * time.Second, 500 * time.Millisecond, 1500 * time.Millisecond}[rng.Intn(7)]}
			for m := rng.Intn(4); m > 0; m-- {
				op.during = append(op.during, third())
			}
			prog = append(prog, op)
			asleep = true
		}
	}
	if asleep {
		prog = append(prog, c26op{kind: "connect"})
	}
	if rng.Intn(2) == 0 {
		prog = append(prog, c26op{kind: "disconnect"})
	}
	return prog
}

type c26expPub struct {
	topic   string
	payload string
	qos     byte
	retain  bool
}

// c26result is one executed API program.
type c26result struct {
	prog     []c26op
	ps       []string
	ka       time.Duration
	will     bool
	evs      []world.Ev
	expPubs  []c26expPub
	expSubs  []string
	callErrs []string
	hung     string
}

// c26exec generates and runs one API program in a fresh world (real client + real gateway + broker model).
func c26exec(t *testing.T, rng *rand.Rand) *c26result {
	res := &c26result{}
	prog := c26gen(rng)
	res.prog = prog
	var ps []string
	for _, o := range prog {
		ps = append(ps, o.String())
	}
	res.ps = ps
	ka := []time.Duration{10 * time.Second, 60 * time.Second, time.Hour}[rng.Intn(3)]
	will := rng.Intn(3) == 0
	res.ka, res.will = ka, will
	early := rng.Intn(4) == 0 // the broker sends a retained-style message right after SUBSCRIBE, before its SUBACK
	var evs []world.Ev
	var expPubs []c26expPub
	var expSubs []string // "S filter qos" / "U filter"
	var callErrs []string
	hung := ""
	tag := 0
	bubble(t, func() {
		cfg := stdClientCfg("cl")
		cfg.KeepAlive = ka
		cfg.PredefinedTopics = c26Predefined()
		if will {
			cfg.WillTopic, cfg.WillPayload, cfg.WillQOS, cfg.WillRetained = "will/cl", []byte("gone"), 1, true
		}
		// in a third of the runs the broker answers pings 3 s late: with the 10 s keep-alive a keep-alive ping is
		// in flight (unanswered) during a third of the time, also when Sleep/Disconnect/Publish are called
		pingDelay := []time.Duration{0, 0, 3 * time.Second}[rng.Intn(3)]
		f := newFullWorld(world.GWConfig{Predefined: c26Predefined(), RetryDelay: 10 * time.Second, RetryCount: 2}, world.BrokerCfg{FirstID: 1, Route: true, EarlyPublish: early, PingrespDelay: pingDelay}, cfg)
		tr := f.W.Tr
		call := func(name string, fn func() error) {
			if hung != "" {
				return
			}
			k := f.API.Go(name, fn)
			for i := 0; ; i++ {
				synctest.Wait()
				if err, ok := f.API.Result(k); ok {
					if err != nil {
						callErrs = append(callErrs, fmt.Sprintf("%s -> %v", name, err))
					}
					break
				}
				if i > 400 {
					hung = name
					break
				}
				time.Sleep(time.Second)
			}
			time.Sleep(50 * time.Millisecond)
			synctest.Wait()
		}
		brokerSend := func(o c26op) {
			cnt := 1
			if o.kind == "burst" {
				cnt = o.n
			}
			for i := 0; i < cnt; i++ {
				// a conforming broker sends only what matches a subscription, with the granted QoS as ceiling
				best, found := byte(0), false
				for flt, q := range f.B.Subs(f.S) {
					if mqttref.Match(flt, o.topic) {
						if !found || q > best {
							best = q
						}
						found = true
					}
				}
				if !found {
					return
				}
				q := o.qos
				if best < q {
					q = best
				}
				tag++
				f.B.Publish(f.S, o.topic, q, false, []byte(fmt.Sprintf("b%d", tag)))
			}
		}
		cb := func(flt string) client.MessageHandlerFunc { return cbRecorder(tr, 0, flt) }
		call("connect", f.Cl.Connect)
		for _, o := range prog {
			o := o
			switch o.kind {
			case "register":
				call(o.String(), func() error { return f.Cl.Register(o.topic) })
			case "subscribe":
				call(o.String(), func() error { return f.Cl.Subscribe(o.topic, o.qos, cb(o.topic)) })
				expSubs = append(expSubs, fmt.Sprintf("S %s %d", o.topic, o.qos))
			case "subpre":
				call(o.String(), func() error { return f.Cl.SubscribePredefined(o.id, o.qos, cb(c26PreName[o.id])) })
				expSubs = append(expSubs, fmt.Sprintf("S %s %d", c26PreName[o.id], o.qos))
			case "unsubscribe":
				call(o.String(), func() error { return f.Cl.Unsubscribe(o.topic) })
				expSubs = append(expSubs, "U "+o.topic)
			case "unsubpre":
				call(o.String(), func() error { return f.Cl.UnsubscribePredefined(o.id) })
				expSubs = append(expSubs, "U "+c26PreName[o.id])
			case "publish", "pubpre":
				tag++
				pl := fmt.Sprintf("c%d", tag)
				q := o.qos
				if q == 3 {
					q = 0
				}
				if o.kind == "publish" {
					call(o.String(), func() error { return f.Cl.Publish(o.topic, []byte(pl), o.qos, o.retain) })
					expPubs = append(expPubs, c26expPub{o.topic, pl, q, o.retain})
				} else {
					call(o.String(), func() error { return f.Cl.PublishPredefined(o.id, []byte(pl), o.qos, o.retain) })
					expPubs = append(expPubs, c26expPub{c26PreName[o.id], pl, q, o.retain})
				}
			case "ping":
				call(o.String(), f.Cl.Ping)
			case "connect":
				call(o.String(), f.Cl.Connect)
			case "disconnect":
				call(o.String(), f.Cl.Disconnect)
			case "third", "burst":
				brokerSend(o)
				synctest.Wait()
				time.Sleep(50 * time.Millisecond)
				synctest.Wait()
			case "sleep":
				if hung != "" {
					break
				}
				k := f.API.Go(o.String(), func() error { return f.Cl.Sleep(o.d) })
				synctest.Wait()
				// broker traffic at evenly spaced instants inside the sleep
				step := o.d / time.Duration(len(o.during)+1)
				for _, x := range o.during {
					time.Sleep(step)
					brokerSend(x)
					synctest.Wait()
				}
				for i := 0; ; i++ {
					synctest.Wait()
					if err, ok := f.API.Result(k); ok {
						if err != nil {
							callErrs = append(callErrs, fmt.Sprintf("%s -> %v", o.String(), err))
						}
						break
					}
					if i > 400 {
						hung = o.String()
						break
					}
					time.Sleep(time.Second)
				}
				time.Sleep(50 * time.Millisecond)
				synctest.Wait()
			}
		}
		// grace: every retry budget may run out
		time.Sleep(45 * time.Second)
		synctest.Wait()
		evs = f.Close()
	})
	res.evs, res.expPubs, res.expSubs, res.callErrs, res.hung = evs, expPubs, expSubs, callErrs, hung
	return res
}

func TestC26(t *testing.T) {
	r := rt.Start(t, "C26")
	n := r.N(1500, 30000)
	ov := c26overlapCases()
	r.Each(t, n+len(ov), 0, nil, func(t *testing.T, c *rt.Case) {
		if c.I >= n {
			c26overlapRun(t, r, c, ov[c.I-n])
			return
		}
		res := c26exec(t, c.Rand())
		prog, ps, ka, will, evs, expPubs, expSubs, callErrs, hung := res.prog, res.ps, res.ka, res.will, res.evs, res.expPubs, res.expSubs, res.callErrs, res.hung
		c.Desc = strings.Join(ps, "; ")
		witness := map[string]interface{}{"program": ps, "keepalive": ka.String(), "will": will, "trace": world.Strings(evs, 600)}
		if hung != "" {
			c.Violation("call-hangs|"+opKind(hung), fmt.Sprintf("API call %s did not return within 400 virtual seconds", hung), witness)
			return
		}
		for _, e := range callErrs {
			c.Violation("call-failed|"+opKind(e)+"|"+errClass(e), "API call failed over a lossless link with a conforming broker: "+e, witness)
		}
		// ---- what the broker saw
		// only what happened before the teardown (Close() sends its own DISCONNECT)
		live := evs
		for i, e := range evs {
			if e.Kind == world.Note && e.Note == "teardown" {
				live = evs[:i]
				break
			}
		}
		mq, _, _ := world.MQPackets(live, 0, world.MQOut)
		var gotPubs []c26expPub
		var gotSubs []string
		nConnect, nDisc := 0, 0
		for _, m := range mq {
			switch m.P.Type {
			case mqttref.CONNECT:
				nConnect++
				p := m.P
				clean := p.CFlags&0x02 != 0
				willFlag := p.CFlags&0x04 != 0
				willQoS := (p.CFlags >> 3) & 3
				willRetain := p.CFlags&0x20 != 0
				if p.ClientID != "cl" || p.KeepAlive != uint16(ka/time.Second) || !clean || willFlag != will ||
					(will && (p.WillTopic != "will/cl" || string(p.WillMsg) != "gone" || willQoS != 1 || !willRetain)) {
					c.Violation("connect-fields", fmt.Sprintf("MQTT CONNECT does not carry the configured fields: %s", p), witness)
				}
			case mqttref.PUBLISH:
				gotPubs = append(gotPubs, c26expPub{m.P.Topic, string(m.P.Payload), m.P.QoS, m.P.Retain})
			case mqttref.SUBSCRIBE:
				for i, flt := range m.P.Filters {
					gotSubs = append(gotSubs, fmt.Sprintf("S %s %d", flt, m.P.QoSs[i]))
				}
			case mqttref.UNSUBSCRIBE:
				for _, flt := range m.P.Filters {
					gotSubs = append(gotSubs, "U "+flt)
				}
			case mqttref.DISCONNECT:
				nDisc++
			}
		}
		if nConnect != 1 {
			c.Violation("connect-count", fmt.Sprintf("the broker saw %d CONNECT packets for one session", nConnect), witness)
		}
		if fmt.Sprint(gotPubs) != fmt.Sprint(expPubs) {
			c.Violation("publishes-differ|"+diffKind(len(gotPubs), len(expPubs)), fmt.Sprintf("publishes seen by the broker %v differ from the Publish calls %v", gotPubs, expPubs), witness)
		}
		if fmt.Sprint(gotSubs) != fmt.Sprint(expSubs) {
			c.Violation("subscriptions-differ|"+diffKind(len(gotSubs), len(expSubs)), fmt.Sprintf("SUBSCRIBE/UNSUBSCRIBE seen by the broker %v differ from the calls %v", gotSubs, expSubs), witness)
		}
		wantDisc := 0
		if len(prog) > 0 && prog[len(prog)-1].kind == "disconnect" {
			wantDisc = 1
		}
		if nDisc != wantDisc {
			c.Violation("disconnect-count", fmt.Sprintf("the broker saw %d DISCONNECT packets, Disconnect was called %d times", nDisc, wantDisc), witness)
		}
		// ---- deliveries: every PUBLISH the broker sent must reach a handler
		type sent struct {
			topic string
			qos   byte
		}
		brokerSent := map[string]sent{}
		var order []string
		mi, _, _ := world.MQPackets(live, 0, world.MQIn)
		for _, m := range mi {
			if m.P.Type == mqttref.PUBLISH {
				brokerSent[string(m.P.Payload)] = sent{m.P.Topic, m.P.QoS}
				order = append(order, string(m.P.Payload))
			}
		}
		cbCount := map[string]int{}
		for _, e := range evs {
			if e.Kind != world.CB {
				continue
			}
			pl := string(e.B)
			s, ok := brokerSent[pl]
			if !ok {
				c.Violation("handler-unsent-message", fmt.Sprintf("a handler ran for payload %q which the broker never sent (%s)", pl, e.Note), witness)
				continue
			}
			if !strings.Contains(e.Note, fmt.Sprintf("topic=%q", s.topic)) {
				c.Violation("handler-wrong-topic", fmt.Sprintf("handler ran with %s for a message the broker sent on %q", e.Note, s.topic), witness)
			}
			// the handler which ran must belong to a matching filter
			if i := strings.Index(e.Note, "filter="); i >= 0 {
				var flt string
				fmt.Sscanf(e.Note[i:], "filter=%q", &flt)
				if !mqttref.Match(flt, s.topic) {
					c.Violation("handler-filter-mismatch", fmt.Sprintf("handler of filter %q ran for topic %q", flt, s.topic), witness)
				}
			}
			cbCount[pl]++
		}
		for _, pl := range order {
			s := brokerSent[pl]
			got := cbCount[pl]
			switch {
			case got == 0:
				c.Violation(fmt.Sprintf("message-not-delivered|qos=%d|%s", s.qos, topicKind(s.topic)), fmt.Sprintf("broker message %q on %q (QoS %d) matched a subscription but no handler ran", pl, s.topic, s.qos), witness)
			case got > 1 && s.qos != 1:
				c.Violation(fmt.Sprintf("message-delivered-twice|qos=%d", s.qos), fmt.Sprintf("broker message %q on %q (QoS %d) ran a handler %d times", pl, s.topic, s.qos, got), witness)
			}
		}
		r.Count("api_calls", len(prog)+1)
		r.Count("client_publishes", len(expPubs))
		r.Count("broker_messages", len(order))
		r.Count("events", len(evs))
		if len(order) > 0 || len(expPubs) > 0 {
			c.Key("%s|ka=%v|will=%v", c.Desc, ka, will)
		}
		if c.I == 5 || c.I == 17 {
			r.Sample(map[string]interface{}{"program": ps, "keepalive": ka.String(), "broker_messages": len(order), "trace_head": world.Strings(evs, 30)})
		}
	})
	r.Finish("random legal API programs (5-30 calls: Register, Subscribe string/wildcard/short/predefined QoS 0-2, Publish registered/short/predefined QoS 0-3 with/without retain, Unsubscribe, Ping, Sleep 0.5/1.5/2/20/100 s with broker traffic during the sleep and repeated sleep cycles, Connect back to active, Disconnect) run lock-step by the real client library against the real gateway session and a conforming simulated broker that routes the client's own publishes back to its subscriptions and sends third-party messages (single and bursts of 2-10 on not-yet-registered topics) whenever a current subscription matches; lossless link, virtual time, keep-alive 10 s / 60 s / 1 h, with and without a will; in a third of the runs the broker answers PINGREQ 3 s late, so that calls start while a keep-alive ping is unanswered. Oracle: every call returns nil; the broker saw one CONNECT with the configured fields, exactly the Publish calls (topic, payload, QoS with -1 -> 0, retain) in order, exactly the SUBSCRIBE/UNSUBSCRIBE filters in order, DISCONNECT iff Disconnect was called; every PUBLISH the broker sent ran a handler of a matching filter with the broker's topic and payload exactly once (QoS 1: at least once) by the end of a 45 s grace period in the active state; no handler ran for anything else. Non-trivial = at least one publish in either direction. Second front (client library against a scripted, conforming gateway): two calls on one filter in progress at once - Subscribe+Subscribe, Subscribe+Unsubscribe, Unsubscribe+Subscribe on a named / short / wildcard filter, every accept/refuse combination, acknowledgements in either order, 0 or 1 ms apart; both calls return what their acknowledgement says, and when a subscription exists afterwards a message on the topic runs a callback of an accepted Subscribe.", nil)
}

func opKind(s string) string {
	if i := strings.IndexAny(s, "( "); i > 0 {
		return s[:i]
	}
	return s
}

func errClass(s string) string {
	if i := strings.Index(s, "-> "); i >= 0 {
		s = s[i+3:]
	}
	var b bytes.Buffer
	for _, ch := range s {
		if ch >= '0' && ch <= '9' {
			continue
		}
		b.WriteRune(ch)
	}
	out := b.String()
	if len(out) > 60 {
		out = out[:60]
	}
	return out
}

func diffKind(got, want int) string {
	switch {
	case got < want:
		return "missing"
	case got > want:
		return "extra"
	}
	return "different"
}

func topicKind(t string) string {
	switch {
	case len(t) == 2:
		return "short"
	case strings.HasPrefix(t, "pre/"):
		return "predefined"
	}
	return "named"
}

var _ = p1.RC_ACCEPTED
