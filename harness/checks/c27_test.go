package checks

import (
	"sort"
	"fmt"
	"math/rand"
	"strings"
	"sync"
	"testing"
	"testing/synctest"
	"time"

	"verifharness/mqttref"
	"verifharness/rt"
	"verifharness/snref"
	"verifharness/world"
)

// simpleGw is the state of a well-behaved scripted gateway for client-library worlds.
type simpleGw struct {
	mu     sync.Mutex
	ids    map[string]uint16 // name -> registered id known to the client
	nextID uint16
	nextMsg uint16
	NoConnack bool
	HoldPubrel bool // do not answer PUBREC with PUBREL (the script sends it later)
	RefuseSubs int  // the next RefuseSubs SUBSCRIBEs are refused (return code 3)
	held       []uint16 // message IDs whose PUBREL is being held
}

func newSimpleGw() *simpleGw { return &simpleGw{ids: map[string]uint16{}, nextID: 100, nextMsg: 20000} }

func (sg *simpleGw) idFor(name string) (uint16, bool) {
	sg.mu.Lock()
	defer sg.mu.Unlock()
	id, ok := sg.ids[name]
	return id, ok
}

func (sg *simpleGw) assign(name string) uint16 {
	sg.mu.Lock()
	defer sg.mu.Unlock()
	if id, ok := sg.ids[name]; ok {
		return id
	}
	sg.nextID++
	sg.ids[name] = sg.nextID
	return sg.nextID
}

func (sg *simpleGw) msgID() uint16 {
	sg.mu.Lock()
	defer sg.mu.Unlock()
	sg.nextMsg++
	return sg.nextMsg
}

// handler answers the client like a conforming gateway (no broker behind it).
func (sg *simpleGw) handler() func(g *world.GwPeer, p *snref.Pkt, raw []byte) {
	return func(g *world.GwPeer, p *snref.Pkt, raw []byte) {
		if p == nil {
			return
		}
		switch p.Type {
		case snref.CONNECT:
			if !sg.NoConnack {
				g.Send(snref.Connack(0))
			}
		case snref.REGISTER:
			g.Send(snref.Regack(sg.assign(p.Name), p.MsgID, 0))
		case snref.SUBSCRIBE:
			var tid uint16
			if p.TIT == 0 && !strings.ContainsAny(p.Name, "+#") {
				tid = sg.assign(p.Name)
			} else if p.TIT == 1 {
				tid = p.TopicID
			}
			sg.mu.Lock()
			refuse := sg.RefuseSubs > 0
			if refuse {
				sg.RefuseSubs--
			}
			sg.mu.Unlock()
			if refuse {
				g.Send(snref.Suback(0, p.MsgID, 3, 0))
				break
			}
			g.Send(snref.Suback(tid, p.MsgID, 0, p.QoS))
		case snref.UNSUBSCRIBE:
			g.Send(snref.MsgOnly(snref.UNSUBACK, p.MsgID))
		case snref.PUBLISH:
			switch p.QoS {
			case 1:
				g.Send(snref.Puback(p.TopicID, p.MsgID, 0))
			case 2:
				g.Send(snref.MsgOnly(snref.PUBREC, p.MsgID))
			}
		case snref.PUBREL:
			g.Send(snref.MsgOnly(snref.PUBCOMP, p.MsgID))
		case snref.PUBREC:
			if !sg.HoldPubrel {
				g.Send(snref.MsgOnly(snref.PUBREL, p.MsgID))
			} else {
				sg.mu.Lock()
				sg.held = append(sg.held, p.MsgID)
				sg.mu.Unlock()
			}
		case snref.PINGREQ:
			g.Send(snref.Pingresp())
		case snref.DISCONNECT:
			g.Send(snref.Disconnect())
		}
	}
}

// deliver makes the scripted gateway deliver one message on a topic name (REGISTER first if needed).
func (sg *simpleGw) deliver(g *world.GwPeer, name string, qos uint8, payload []byte) {
	if len(name) == 2 {
		g.Send(snref.Publish(2, snref.ShortID(name), sg.msgID(), qos, false, false, payload))
		return
	}
	id, ok := sg.idFor(name)
	if !ok {
		id = sg.assign(name)
		g.Send(snref.Register(id, sg.msgID(), name))
		synctest.Wait()
	}
	g.Send(snref.Publish(0, id, sg.msgID(), qos, false, false, payload))
}

func c27Filters() []string {
	lv := []string{"a", "b", "", "+"}
	var seqs [][]string
	var gen func(prefix []string, n int)
	gen = func(prefix []string, n int) {
		if len(prefix) > 0 {
			seqs = append(seqs, append([]string(nil), prefix...))
		}
		if n == 0 {
			return
		}
		for _, l := range lv {
			gen(append(prefix, l), n-1)
		}
	}
	gen(nil, 3)
	var out []string
	for _, s := range seqs {
		out = append(out, strings.Join(s, "/"))
		if len(s) <= 2 {
			out = append(out, strings.Join(append(append([]string(nil), s...), "#"), "/"))
		}
	}
	out = append(out, "#")
	// an empty filter cannot be subscribed to
	var res []string
	for _, f := range out {
		if f != "" {
			res = append(res, f)
		}
	}
	return res
}

func c27Names() []string {
	lv := []string{"a", "b", ""}
	var out []string
	var gen func(prefix []string, n int)
	gen = func(prefix []string, n int) {
		if len(prefix) > 0 {
			if s := strings.Join(prefix, "/"); s != "" {
				out = append(out, s)
			}
		}
		if n == 0 {
			return
		}
		for _, l := range lv {
			gen(append(prefix, l), n-1)
		}
	}
	gen(nil, 3)
	return out
}

func TestC27(t *testing.T) {
	r := rt.Start(t, "C27")
	filters := c27Filters()
	names := c27Names()
	type fset []string
	var sets []fset
	for _, f := range filters {
		sets = append(sets, fset{f})
	}
	nSingles := len(sets)
	var pairs []fset
	for i := range filters {
		for j := i + 1; j < len(filters); j++ {
			pairs = append(pairs, fset{filters[i], filters[j]})
		}
	}
	// quick: all singles + a PRNG-chosen sample of pairs; thorough: all pairs
	rngP := rand.New(rand.NewSource(r.Seed))
	rngP.Shuffle(len(pairs), func(i, j int) { pairs[i], pairs[j] = pairs[j], pairs[i] })
	nPairs := r.N(1200, len(pairs))
	sets = append(sets, pairs[:nPairs]...)
	nHist := r.N(300, 3000)
	// third front: the subscriptions change while a QoS 2 message is between PUBLISH and PUBREL, and
	// re-subscriptions which the gateway refuses
	chg := c27changeCases()
	// fourth front: an Unsubscribe and a Subscribe of one filter in progress at the same time (C26's
	// overlap cases of those two kinds); the rule judged here is 'once Unsubscribe succeeded the callback
	// it revoked no longer runs'
	var ovl []c26overlapCase
	for _, k := range c26overlapCases() {
		if k.kind == "sub-unsub" || k.kind == "unsub-sub" {
			ovl = append(ovl, k)
		}
	}
	total := len(sets) + nHist + len(chg) + len(ovl)
	r.Each(t, total, 0, nil, func(t *testing.T, c *rt.Case) {
		if c.I >= len(sets)+nHist+len(chg) {
			c26overlapRun(t, r, c, ovl[c.I-len(sets)-nHist-len(chg)])
			c.Evals(1)
			return
		}
		if c.I >= len(sets)+nHist {
			c27change(t, r, c, chg[c.I-len(sets)-nHist])
			return
		}
		rng := c.Rand()
		var fs []string
		history := false
		if c.I < len(sets) {
			fs = sets[c.I]
		} else {
			history = true
			for k := 0; k < 2+rng.Intn(3); k++ {
				fs = append(fs, filters[rng.Intn(len(filters))])
			}
		}
		c.Desc = fmt.Sprintf("filters=%q history=%v", fs, history)
		var evs []world.Ev
		type pubRec struct {
			topic   string
			payload string
			current map[string]bool // filters subscribed at that moment
			seq     int
		}
		var pubs []pubRec
		failed := ""
		bubble(t, func() {
			tr := world.NewTrace()
			sg := newSimpleGw()
			g := world.NewGwPeer(tr, 0, sg.handler())
			cl := newClientOn(g.Link.A, stdClientCfg("cl"))
			if err := cl.Dial("mem"); err != nil {
				failed = "dial: " + err.Error()
				return
			}
			if err := cl.Connect(); err != nil {
				failed = "connect: " + err.Error()
			}
			current := map[string]bool{}
			sub := func(f string) {
				if err := cl.Subscribe(f, uint8(rng.Intn(3)), cbRecorder(tr, 0, f)); err != nil {
					failed = fmt.Sprintf("Subscribe(%q): %v", f, err)
				}
				current[f] = true
			}
			unsub := func(f string) {
				if err := cl.Unsubscribe(f); err != nil {
					failed = fmt.Sprintf("Unsubscribe(%q): %v", f, err)
				}
				delete(current, f)
			}
			n := 0
			publishAll := func() {
				for _, name := range names {
					n++
					pl := fmt.Sprintf("m%d-%d", c.I, n)
					cur := map[string]bool{}
					for f := range current {
						cur[f] = true
					}
					pubs = append(pubs, pubRec{name, pl, cur, tr.Len()})
					sg.deliver(g, name, uint8(rng.Intn(3)), []byte(pl))
					synctest.Wait()
				}
			}
			if failed == "" {
				for _, f := range fs {
					if !current[f] {
						sub(f)
					}
				}
				publishAll()
				if history {
					for k := 0; k < 3 && failed == ""; k++ {
						if rng.Intn(2) == 0 && len(current) > 0 {
							for f := range current {
								unsub(f)
								break
							}
						} else {
							sub(filters[rng.Intn(len(filters))])
						}
						publishAll()
					}
				} else if failed == "" {
					unsub(fs[0])
					publishAll()
				}
			}
			time.Sleep(time.Second)
			synctest.Wait()
			cl.Close()
			time.Sleep(2 * time.Second)
			g.Close()
			synctest.Wait()
			evs = tr.Events()
		})
		if failed != "" {
			c.Inconclusive("setup failed: " + failed + " (judged by C26/C28)")
			return
		}
		// callbacks by payload
		cbs := map[string][]string{}
		for _, e := range evs {
			if e.Kind == world.CB {
				var f string
				fmt.Sscanf(e.Note, "filter=%q", &f)
				cbs[string(e.B)] = append(cbs[string(e.B)], f)
			}
		}
		checked := 0
		for _, p := range pubs {
			got := cbs[p.payload]
			anyMatch := false
			for f := range p.current {
				if mqttref.Match(f, p.topic) {
					anyMatch = true
				}
			}
			checked++
			witness := map[string]interface{}{"topic": p.topic, "subscribed": keys(p.current), "callbacks": got}
			switch {
			case !anyMatch && len(got) > 0:
				c.Violation(fmt.Sprintf("callback-for-non-matching-filter|filter=%s|topic=%s", shape(got[0]), shape(p.topic)), fmt.Sprintf("message on %q invoked the callback of %q although no current filter %q matches", p.topic, got, keys(p.current)), witness)
			case anyMatch && len(got) == 0:
				var mf string
				for f := range p.current {
					if mqttref.Match(f, p.topic) {
						mf = f
					}
				}
				c.Violation(fmt.Sprintf("no-callback-for-matching-filter|filter=%s|topic=%s", shape(mf), shape(p.topic)), fmt.Sprintf("message on %q invoked no callback although filter %q is subscribed and matches", p.topic, mf), witness)
			case len(got) > 1:
				c.Violation("several-callbacks", fmt.Sprintf("message on %q invoked %d callbacks %q", p.topic, len(got), got), witness)
			case len(got) == 1:
				if !p.current[got[0]] {
					c.Violation(fmt.Sprintf("callback-after-unsubscribe|filter=%s", shape(got[0])), fmt.Sprintf("message on %q invoked the callback of %q, which had been unsubscribed", p.topic, got[0]), witness)
				} else if !mqttref.Match(got[0], p.topic) {
					c.Violation(fmt.Sprintf("callback-of-non-matching-filter|filter=%s|topic=%s", shape(got[0]), shape(p.topic)), fmt.Sprintf("message on %q invoked the callback of %q, which does not match", p.topic, got[0]), witness)
				}
			}
		}
		c.Evals(checked)
		r.Count("deliveries_checked", checked)
		c.Key("%q|%v", fs, history)
		if c.I == 3 {
			r.Sample(map[string]interface{}{"filters": fs, "deliveries": checked, "example_topics": names[:8]})
		}
	})
	r.Finish(fmt.Sprintf("real client library against a scripted gateway in virtual time. Filter alphabet: %d filters = all level sequences of depth 1-3 over {a,b,empty,+}, each of depth <= 2 also with a trailing '#', and '#'; topic names: %d names = all level sequences of depth 1-3 over {a,b,empty} (incl. leading/trailing '/', '//'). Cases: every single-filter subscription (exhaustive), %d of the %d two-filter sets (thorough: all), and random subscribe/unsubscribe histories; in each case every name is delivered (QoS 0/1/2 at random; REGISTER first, short encoding for 2-byte names) before and after an Unsubscribe. Oracle: independent MQTT 4.7 matcher; no callback when no current filter matches, otherwise exactly one callback whose filter is current and matches. Third front: with callback A subscribed, a message (QoS 0/1/2; for QoS 2 the PUBREL is held back after the PUBLISH) is delivered after {nothing, Unsubscribe, re-Subscribe with callback B, a re-Subscribe with B which the gateway refuses, Subscribe of another matching filter}: the callback that runs is the one of a subscription current at delivery (none after Unsubscribe, B after the accepted re-Subscribe, A after the refused one). Fourth front: Unsubscribe and Subscribe of one filter (already subscribed with callback 'old') in progress at the same time, every accept/refuse combination and acknowledgement order: after the accepted Unsubscribe 'old' never runs. Evaluations = deliveries checked; distinct = filter sets.", len(filters), len(names), nPairs, len(pairs))+fmt.Sprintf(" (%d singles)", nSingles), nil)
}

func keys(m map[string]bool) []string {
	var out []string
	for k := range m {
		out = append(out, k)
	}
	return out
}

// shape abstracts a filter or topic to its level pattern (x = literal level, e = empty level).
func shape(s string) string {
	parts := strings.Split(s, "/")
	for i, p := range parts {
		switch p {
		case "+", "#":
		case "":
			parts[i] = "e"
		default:
			parts[i] = "x"
		}
	}
	return strings.Join(parts, "/")
}

// c27changeCase: filter f (callback A) is subscribed; a message on `topic` arrives with `qos`; for QoS 2 the
// PUBREL is held back while `change` happens; then the PUBREL (QoS 2) resp. a second message (QoS 0/1) follows.
type c27changeCase struct {
	f, topic string
	qos      uint8
	change   string // "unsubscribe", "resubscribe-B", "resubscribe-B-refused", "subscribe-other-matching", "none"
}

func (k c27changeCase) String() string {
	return fmt.Sprintf("filter %q (callback A), message on %q QoS %d, change before it is delivered: %s", k.f, k.topic, k.qos, k.change)
}

func c27changeCases() []c27changeCase {
	var out []c27changeCase
	for _, ft := range [][2]string{{"a/b", "a/b"}, {"a/+", "a/b"}, {"#", "a/b"}, {"ab", "ab"}, {"a/#", "a"}} {
		for _, qos := range []uint8{0, 1, 2} {
			for _, ch := range []string{"none", "unsubscribe", "resubscribe-B", "resubscribe-B-refused", "subscribe-other-matching"} {
				out = append(out, c27changeCase{ft[0], ft[1], qos, ch})
			}
		}
	}
	return out
}

func c27change(t *testing.T, r *rt.Run, c *rt.Case, k c27changeCase) {
	c.Desc = "subscription change around a delivery: " + k.String()
	var evs []world.Ev
	failed := ""
	bubble(t, func() {
		tr := world.NewTrace()
		sg := newSimpleGw()
		sg.HoldPubrel = true
		g := world.NewGwPeer(tr, 0, sg.handler())
		cl := newClientOn(g.Link.A, stdClientCfg("cl"))
		if err := cl.Dial("mem"); err != nil {
			failed = "dial: " + err.Error()
			return
		}
		if err := cl.Connect(); err != nil {
			failed = "connect: " + err.Error()
			return
		}
		if err := cl.Subscribe(k.f, 2, cbRecorder(tr, 0, "A")); err != nil {
			failed = "subscribe: " + err.Error()
			return
		}
		if k.qos == 2 {
			// PUBLISH arrives (the client answers PUBREC), the PUBREL is held back
			sg.deliver(g, k.topic, 2, []byte("msg"))
			synctest.Wait()
		}
		var err error
		switch k.change {
		case "unsubscribe":
			err = cl.Unsubscribe(k.f)
		case "resubscribe-B":
			err = cl.Subscribe(k.f, 1, cbRecorder(tr, 0, "B"))
		case "resubscribe-B-refused":
			sg.mu.Lock()
			sg.RefuseSubs = 1
			sg.mu.Unlock()
			if e := cl.Subscribe(k.f, 1, cbRecorder(tr, 0, "B")); e == nil {
				failed = "the refused Subscribe returned nil"
			}
		case "subscribe-other-matching":
			err = cl.Subscribe("#", 1, cbRecorder(tr, 0, "other"))
			if k.f == "#" {
				err = cl.Subscribe("+/+", 1, cbRecorder(tr, 0, "other"))
			}
		}
		if err != nil {
			failed = k.change + ": " + err.Error()
			return
		}
		synctest.Wait()
		tr.Add(0, world.Note, nil, "delivery")
		if k.qos == 2 {
			sg.mu.Lock()
			held := append([]uint16(nil), sg.held...)
			sg.mu.Unlock()
			for _, mid := range held {
				g.Send(snref.MsgOnly(snref.PUBREL, mid))
			}
		} else {
			sg.deliver(g, k.topic, k.qos, []byte("msg"))
		}
		time.Sleep(time.Second)
		synctest.Wait()
		cl.Close()
		time.Sleep(2 * time.Second)
		g.Close()
		synctest.Wait()
		evs = tr.Events()
	})
	if failed != "" {
		c.Inconclusive("setup failed: " + failed + " (judged by C26/C28)")
		return
	}
	var ran []string
	after := false
	for _, e := range evs {
		if e.Kind == world.Note && e.Note == "delivery" {
			after = true
		}
		if e.Kind == world.CB {
			var f string
			fmt.Sscanf(e.Note, "filter=%q", &f)
			if !after {
				f += "(before PUBREL)"
			}
			ran = append(ran, f)
		}
	}
	// the callback of a CURRENT subscription at delivery time
	want := map[string]bool{}
	switch k.change {
	case "none", "resubscribe-B-refused":
		want["A"] = true
	case "unsubscribe":
	case "resubscribe-B":
		want["B"] = true
	case "subscribe-other-matching":
		want["A"], want["other"] = true, true
	}
	witness := map[string]interface{}{"case": k.String(), "callbacks": ran, "trace": world.Strings(evs, 60)}
	sig := fmt.Sprintf("|%s|qos=%d", k.change, k.qos)
	switch {
	case len(want) == 0 && len(ran) > 0:
		c.Violation("callback-after-unsubscribe"+sig, fmt.Sprintf("%s: callback %q ran although the filter had been unsubscribed before the message was delivered", k, ran), witness)
	case len(want) > 0 && len(ran) == 0:
		c.Violation("no-callback-for-current-subscription"+sig, fmt.Sprintf("%s: no callback ran", k), witness)
	case len(ran) > 1:
		c.Violation("several-callbacks"+sig, fmt.Sprintf("%s: callbacks %q ran", k, ran), witness)
	case len(ran) == 1 && !want[ran[0]]:
		c.Violation("callback-of-a-subscription-that-is-not-current"+sig, fmt.Sprintf("%s: callback %q ran, the current subscription's is %v", k, ran[0], keysB(want)), witness)
	}
	c.Evals(1)
	r.Count("deliveries_checked", 1)
	r.Observe("delivery around a subscription change", fmt.Sprintf("%s qos=%d -> %v", k.change, k.qos, ran))
	c.Key("change|%s", k)
}

func keysB(m map[string]bool) []string {
	var out []string
	for k := range m {
		out = append(out, k)
	}
	sort.Strings(out)
	return out
}
