package checks

import (
	"fmt"
	"sync"
	"testing"
	"testing/synctest"
	"time"

	"github.com/energomonitor/bisquitt/client"
	p1 "github.com/energomonitor/bisquitt/packets1"

	"verifharness/memnet"
	"verifharness/rt"
	"verifharness/snref"
	"verifharness/world"
)

// gwBehaviour describes how the scripted gateway misbehaves from its k-th received datagram on.
type gwBehaviour struct {
	kind string // "normal", "silent", "reply-type", "disconnect", "garbage"
	k    int
	typ  byte
}

func (b gwBehaviour) String() string {
	switch b.kind {
	case "reply-type":
		return fmt.Sprintf("from datagram #%d answers everything with %s", b.k, snref.TypeName(b.typ))
	case "repeat":
		return fmt.Sprintf("answers datagram #%d with %s every second for ten minutes, then and otherwise silent", b.k, snref.TypeName(b.typ))
	case "normal":
		return "normal"
	case "senderr":
		return fmt.Sprintf("normal, but the client's datagram write #%d fails (send error)", b.k)
	case "senderr-all":
		return fmt.Sprintf("normal, but every datagram write of the client from #%d on fails (send error)", b.k)
	}
	return fmt.Sprintf("%s from datagram #%d", b.kind, b.k)
}

// hostileHandler wraps simpleGw with a misbehaviour.
func hostileHandler(sg *simpleGw, b gwBehaviour) func(g *world.GwPeer, p *snref.Pkt, raw []byte) {
	n := 0
	normal := sg.handler()
	return func(g *world.GwPeer, p *snref.Pkt, raw []byte) {
		i := n
		n++
		if b.kind == "normal" || b.kind == "senderr" || b.kind == "senderr-all" || i < b.k {
			normal(g, p, raw)
			return
		}
		if i >= b.k+30 {
			// bounded hostility: a peer that answers every answer forever (PINGREQ <-> PINGRESP)
			// would keep the virtual instant from ever ending; 30 replies are enough.
			return
		}
		switch b.kind {
		case "silent":
		case "repeat":
			// answers the k-th datagram with one packet type, again and again (faster than the
			// client's RetryDelay) for ten minutes, and nothing else
			if i == b.k {
				mid := uint16(0)
				if p != nil {
					mid = p.MsgID
				}
				r := &snref.Pkt{Type: b.typ, MsgID: mid, TopicID: 1}
				for n := 0; n < 600; n++ {
					g.SendAfter(time.Duration(n)*time.Second, r)
				}
			}
		case "disconnect":
			if i == b.k {
				g.Send(snref.Disconnect())
			}
		case "garbage":
			g.SendRaw([]byte{0x03, 0x19, 0x00})
		case "reply-type":
			mid := uint16(0)
			if p != nil {
				mid = p.MsgID
			}
			r := &snref.Pkt{Type: b.typ, MsgID: mid, TopicID: 1}
			switch b.typ {
			case snref.REGISTER:
				r.Name = "hostile/topic"
			case snref.PUBLISH:
				r.QoS = uint8(i % 3)
				r.TIT = uint8(i % 3)
				r.Data = []byte("hostile")
			case snref.CONNECT:
				r.ProtoID = 1
				r.ClientID = []byte("x")
				r.Duration = 1
			}
			g.Send(r)
		}
	}
}

type apiCall struct {
	name string
	f    func(cl *client.Client, tr *world.Trace) error
}

func apiCalls() []apiCall {
	cb := func(*client.Client, string, *p1.Publish) {}
	return []apiCall{
		{"Register", func(cl *client.Client, tr *world.Trace) error { return cl.Register("t/r") }},
		{"Subscribe", func(cl *client.Client, tr *world.Trace) error { return cl.Subscribe("t/s", 1, cb) }},
		{"SubscribeShort", func(cl *client.Client, tr *world.Trace) error { return cl.Subscribe("ab", 0, cb) }},
		{"PublishQ0", func(cl *client.Client, tr *world.Trace) error { return cl.Publish("ab", []byte("x"), 0, false) }},
		{"PublishQ1", func(cl *client.Client, tr *world.Trace) error { return cl.Publish("ab", []byte("x"), 1, false) }},
		{"PublishQ2", func(cl *client.Client, tr *world.Trace) error { return cl.Publish("ab", []byte("x"), 2, false) }},
		{"Unsubscribe", func(cl *client.Client, tr *world.Trace) error { return cl.Unsubscribe("t/s") }},
		{"Ping", func(cl *client.Client, tr *world.Trace) error { return cl.Ping() }},
		{"Sleep", func(cl *client.Client, tr *world.Trace) error { return cl.Sleep(5 * time.Second) }},
		{"Disconnect", func(cl *client.Client, tr *world.Trace) error { return cl.Disconnect() }},
	}
}

func TestC28(t *testing.T) {
	r := rt.Start(t, "C28")
	leakIsViolation = "C28"
	r.DeadlockIsViolation = true
	calls := apiCalls()
	var behaviours []gwBehaviour
	behaviours = append(behaviours, gwBehaviour{kind: "normal"})
	for k := 0; k <= 4; k++ {
		behaviours = append(behaviours, gwBehaviour{kind: "silent", k: k}, gwBehaviour{kind: "disconnect", k: k})
	}
	behaviours = append(behaviours, gwBehaviour{kind: "garbage", k: 1}, gwBehaviour{kind: "garbage", k: 2})
	for k := 0; k <= 4; k++ {
		behaviours = append(behaviours, gwBehaviour{kind: "senderr", k: k}, gwBehaviour{kind: "senderr-all", k: k})
	}
	for _, ty := range []byte{snref.CONNACK, snref.REGISTER, snref.REGACK, snref.PUBLISH, snref.PUBACK, snref.PUBREC, snref.PUBREL, snref.PUBCOMP, snref.SUBACK, snref.UNSUBACK, snref.PINGRESP, snref.DISCONNECT, snref.WILLTOPICREQ, snref.WILLMSGREQ, snref.CONNECT, snref.PINGREQ, snref.ADVERTISE} {
		behaviours = append(behaviours, gwBehaviour{kind: "reply-type", k: 1, typ: ty}, gwBehaviour{kind: "reply-type", k: 2, typ: ty})
	}
	for _, ty := range []byte{snref.PUBREC, snref.PUBACK, snref.PUBCOMP, snref.SUBACK, snref.REGACK, snref.UNSUBACK, snref.PINGRESP, snref.DISCONNECT, snref.CONNACK} {
		behaviours = append(behaviours, gwBehaviour{kind: "repeat", k: 1, typ: ty})
	}
	type cs struct {
		b      gwBehaviour
		c1, c2 int // c2 = -1: no second call
		ka     bool
		kaDur  time.Duration // keep-alive period when ka (default 3 s)
	}
	var cases []cs
	for _, b := range behaviours {
		for c1 := range calls {
			for _, ka := range []bool{false, true} {
				cases = append(cases, cs{b: b, c1: c1, c2: -1, ka: ka})
			}
			// a legal sub-second keep-alive (the CONNECT then announces duration 0)
			if b.kind == "normal" || (b.kind == "silent" && b.k <= 2) || (b.kind == "disconnect" && b.k == 2) || (b.kind == "senderr" && b.k <= 2) {
				cases = append(cases, cs{b: b, c1: c1, c2: -1, ka: true, kaDur: 500 * time.Millisecond})
			}
		}
	}
	// second concurrent call: all pairs under three representative behaviours
	for _, b := range []gwBehaviour{{kind: "normal"}, {kind: "silent", k: 1}, {kind: "silent", k: 2}, {kind: "disconnect", k: 2}} {
		for c1 := range calls {
			for c2 := range calls {
				cases = append(cases, cs{b: b, c1: c1, c2: c2, ka: (c1+c2)%2 == 0})
			}
		}
	}
	if !r.Thorough() {
		var sub []cs
		for i, c := range cases {
			if i%2 == int(r.Seed%2) || c.b.kind == "silent" || c.b.kind == "repeat" || c.b.kind == "senderr" || c.kaDur > 0 {
				sub = append(sub, c)
			}
		}
		cases = sub
	}
	r.Each(t, len(cases), 0, nil, func(t *testing.T, c *rt.Case) {
		cse := cases[c.I]
		second := "-"
		if cse.c2 >= 0 {
			second = calls[cse.c2].name
		}
		c.Desc = fmt.Sprintf("gateway %s; call %s; concurrent %s; keepalive=%v/%v", cse.b, calls[cse.c1].name, second, cse.ka, cse.kaDur)
		cfg := stdClientCfg("cl")
		cfg.RetryCount, cfg.RetryDelay, cfg.ConnectTimeout = 1, 2*time.Second, 2*time.Second
		if cse.ka {
			cfg.KeepAlive = 3 * time.Second
			if cse.kaDur > 0 {
				cfg.KeepAlive = cse.kaDur
			}
		}
		bound := 2*2*time.Second + 5*time.Second + 61*time.Second // (RC+1)*max(CT,RD) + sleep + 60 s PINGRESP wait + 1 s
		var evs []world.Ev
		bubble(t, func() {
			tr := world.NewTrace()
			sg := newSimpleGw()
			g := world.NewGwPeer(tr, 0, hostileHandler(sg, cse.b))
			if cse.b.kind == "senderr" || cse.b.kind == "senderr-all" {
				var fmu sync.Mutex
				nOut := 0
				g.SetPlan(func(dir string, p *snref.Pkt, n int) memnet.Action {
					if dir != world.SNIn {
						return memnet.Pass
					}
					fmu.Lock()
					defer fmu.Unlock()
					i := nOut
					nOut++
					if i == cse.b.k || (i > cse.b.k && cse.b.kind == "senderr-all") {
						return memnet.Fail
					}
					return memnet.Pass
				})
			}
			cl := newClientOn(g.Link.A, cfg)
			cl.Dial("mem")
			a := newAPI(tr, 0)
			n0 := a.Go("Connect", func() error { return cl.Connect() })
			time.Sleep(2 * bound)
			synctest.Wait()
			if _, ok := a.Result(n0); !ok {
				c.Violation("call-hangs|Connect|"+cse.b.kind, fmt.Sprintf("Connect has not returned after %v (bound %v); gateway: %s", 2*bound, bound, cse.b), map[string]interface{}{"trace": world.Strings(tr.Events(), 60)})
			}
			if cse.ka {
				// let a keep-alive ping get in flight
				time.Sleep(3100 * time.Millisecond)
			}
			var ns []int
			ns = append(ns, a.Go(calls[cse.c1].name, func() error { return calls[cse.c1].f(cl, tr) }))
			if cse.c2 >= 0 {
				ns = append(ns, a.Go(calls[cse.c2].name, func() error { return calls[cse.c2].f(cl, tr) }))
			}
			time.Sleep(2 * bound)
			synctest.Wait()
			for i, n := range ns {
				if _, ok := a.Result(n); !ok {
					nm := calls[cse.c1].name
					if i == 1 {
						nm = calls[cse.c2].name
					}
					c.Violation(fmt.Sprintf("call-hangs|%s|%s|ka=%v", nm, cse.b.kind, cse.ka), fmt.Sprintf("%s has not returned after %v (bound %v); %s", nm, 2*bound, bound, c.Desc), map[string]interface{}{"trace": world.Strings(tr.Events(), 80), "open_calls": a.Open()})
				}
			}
			nc := a.Go("Close", func() error { return cl.Close() })
			time.Sleep(2 * bound)
			synctest.Wait()
			if _, ok := a.Result(nc); !ok {
				c.Violation(fmt.Sprintf("call-hangs|Close|%s|ka=%v", cse.b.kind, cse.ka), fmt.Sprintf("Close has not returned after %v; %s", 2*bound, c.Desc), map[string]interface{}{"trace": world.Strings(tr.Events(), 80), "open_calls": a.Open()})
			}
			time.Sleep(3 * time.Second)
			synctest.Wait()
			evs = tr.Events()
			// after Close (plus 2 s receive poll) nothing of the client may be left
			leaks := bubbleLeaks()
			hung := len(a.Open()) > 0
			if len(leaks) > 0 && !hung {
				c.Violation(fmt.Sprintf("goroutine-leak|%s|ka=%v", leakSite(leaks[0]), cse.ka), fmt.Sprintf("%d client goroutine(s) still alive 3 s after Close returned; first in %s; %s", len(leaks), leakSite(leaks[0]), c.Desc), map[string]interface{}{"stacks": leaks, "trace": world.Strings(evs, 80)})
			}
			if len(leaks) > 0 || hung {
				c.MarkDone()
				c.R.ExitNow()
			}
			g.Close()
		})
		c.Key("%s", c.Desc)
		r.Count("events", len(evs))
		if c.I == 11 {
			r.Sample(map[string]interface{}{"case": c.Desc, "trace_head": world.Strings(evs, 16)})
		}
	})
	r.Finish("real client library (RetryCount 1, RetryDelay 2 s, ConnectTimeout 2 s; keep-alive off, 3 s with a ping in flight, or 500 ms) against a scripted gateway in virtual time. Gateway behaviours: normal; silent from its k-th received datagram on (k=0..4); DISCONNECT on its k-th datagram (k=0..4); undecodable replies; from datagram 1 or 2 on answering everything with one fixed packet type (17 types incl. unsolicited acks, REGISTER, PUBLISH, CONNECT, ADVERTISE); answering the call's first datagram with one acknowledgement type repeated every second for ten minutes (9 types); normal but the client's own k-th datagram write (or every write from the k-th on, k=0..4) returns a send error. Calls: Connect, then each of Register/Subscribe/Publish QoS 0-2/Unsubscribe/Ping/Sleep(5 s)/Disconnect, alone and (for normal, silent and disconnecting gateways) together with each second call, then Close. Oracle: every call has returned when virtual time has advanced by twice the bound (RetryCount+1) x max(ConnectTimeout, RetryDelay) + sleep duration + 60 s + 1 s; 3 s after Close returned the runtime's goroutine dump shows no goroutine of the bubble inside bisquitt code. Quick tier: every second case (all 'silent' cases).", nil)
}
