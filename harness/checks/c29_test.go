package checks

import (
	"fmt"
	"os"
	"sync"
	"sync/atomic"
	"testing"
	"time"

	"github.com/anishathalye/porcupine"
	pkts "github.com/energomonitor/bisquitt/packets"
	"github.com/energomonitor/bisquitt/transactions"
	"github.com/energomonitor/bisquitt/util"

	"verifharness/rt"
)

// ---- sequential models ----

type seqState struct {
	next     uint16
	overflow bool
}
type seqOut struct {
	id       uint16
	overflow bool
}

func seqModel(min, max uint16) porcupine.Model {
	return porcupine.Model{
		Init: func() interface{} { return seqState{next: min} },
		Step: func(st, in, out interface{}) (bool, interface{}) {
			s := st.(seqState)
			o := out.(seqOut)
			ok := o.id == s.next && o.overflow == s.overflow
			n := seqState{}
			if s.next == max {
				n.next, n.overflow = min, true
			} else {
				n.next = s.next + 1
			}
			return ok, n
		},
		DescribeOperation: func(in, out interface{}) string { o := out.(seqOut); return fmt.Sprintf("Next()->(%d,%v)", o.id, o.overflow) },
	}
}

type dummyTx struct{ id int }

func (d *dummyTx) Fail(error)            {}
func (d *dummyTx) Success()              {}
func (d *dummyTx) Done() <-chan struct{} { return nil }
func (d *dummyTx) Err() error            { return nil }

type storeIn struct {
	op    int // 0 store 1 get 2 delete
	space int // 0 by id, 1 by type
	key   int
	val   int
}
type storeOut struct {
	val int // -1 = absent
}

var storeModel = porcupine.Model{
	Partition: func(h []porcupine.Operation) [][]porcupine.Operation {
		m := map[[2]int][]porcupine.Operation{}
		for _, o := range h {
			in := o.Input.(storeIn)
			k := [2]int{in.space, in.key}
			m[k] = append(m[k], o)
		}
		var out [][]porcupine.Operation
		for _, v := range m {
			out = append(out, v)
		}
		return out
	},
	Init: func() interface{} { return -1 },
	Step: func(st, in, out interface{}) (bool, interface{}) {
		i := in.(storeIn)
		switch i.op {
		case 0:
			return true, i.val
		case 1:
			return out.(storeOut).val == st.(int), st
		default:
			return true, -1
		}
	},
	DescribeOperation: func(in, out interface{}) string {
		i := in.(storeIn)
		return fmt.Sprintf("%s(space=%d,key=%d,val=%d)->%v", []string{"Store", "Get", "Delete"}[i.op], i.space, i.key, i.val, out)
	},
}

type stateIn struct {
	set bool
	v   util.ClientState
}

var stateModel = porcupine.Model{
	Init: func() interface{} { return util.StateDisconnected },
	Step: func(st, in, out interface{}) (bool, interface{}) {
		i := in.(stateIn)
		if i.set {
			return out.(util.ClientState) == st.(util.ClientState), i.v
		}
		return out.(util.ClientState) == st.(util.ClientState), st
	},
}

type recorder struct {
	clock int64
	mu    sync.Mutex
	ops   []porcupine.Operation
}

func (r *recorder) do(client int, in interface{}, f func() interface{}) {
	call := atomic.AddInt64(&r.clock, 1)
	out := f()
	ret := atomic.AddInt64(&r.clock, 1)
	r.mu.Lock()
	r.ops = append(r.ops, porcupine.Operation{ClientId: client, Input: in, Call: call, Output: out, Return: ret})
	r.mu.Unlock()
}

var typeKeys = []pkts.PacketType{pkts.CONNECT, pkts.PINGREQ, pkts.DISCONNECT}

// stress runs one concurrent history; rec == nil means "no recording" (race phase).
func stressSeq(rng interface{ Intn(int) int }, rec *recorder) (min, max uint16, nops int) {
	ranges := [][2]uint16{{1, 3}, {0, 1}, {5, 5}, {1, 6}, {0xFFFE, 0xFFFF}, {1, 0xFFFF}, {0, 2}}
	rg := ranges[rng.Intn(len(ranges))]
	min, max = rg[0], rg[1]
	s := util.NewIDSequence(min, max)
	g := 2 + rng.Intn(7)
	per := 3 + rng.Intn(10)
	var wg sync.WaitGroup
	start := make(chan struct{})
	for i := 0; i < g; i++ {
		wg.Add(1)
		go func(i int) {
			defer wg.Done()
			<-start
			for k := 0; k < per; k++ {
				if rec == nil {
					s.Next()
					continue
				}
				rec.do(i, nil, func() interface{} { id, ov := s.Next(); return seqOut{id, ov} })
			}
		}(i)
	}
	close(start)
	wg.Wait()
	return min, max, g * per
}

func stressStore(seed int64, rngN func(int) int, rec *recorder) int {
	ts := transactions.NewTransactionStore()
	g := 2 + rngN(7)
	per := 5 + rngN(30)
	nkeys := 1 + rngN(3)
	var wg sync.WaitGroup
	start := make(chan struct{})
	var valCtr int64
	plans := make([][]storeIn, g)
	for i := range plans {
		for k := 0; k < per; k++ {
			plans[i] = append(plans[i], storeIn{op: rngN(3), space: rngN(2), key: rngN(nkeys)})
		}
	}
	for i := 0; i < g; i++ {
		wg.Add(1)
		go func(i int) {
			defer wg.Done()
			<-start
			for _, in := range plans[i] {
				if in.op == 0 {
					in.val = int(atomic.AddInt64(&valCtr, 1))
				}
				f := func() interface{} {
					switch {
					case in.op == 0 && in.space == 0:
						ts.Store(uint16(in.key), &dummyTx{in.val})
					case in.op == 0:
						ts.StoreByType(typeKeys[in.key], &dummyTx{in.val})
					case in.op == 1:
						var tx transactions.Transaction
						var ok bool
						if in.space == 0 {
							tx, ok = ts.Get(uint16(in.key))
						} else {
							tx, ok = ts.GetByType(typeKeys[in.key])
						}
						if !ok {
							return storeOut{-1}
						}
						return storeOut{tx.(*dummyTx).id}
					case in.space == 0:
						ts.Delete(uint16(in.key))
					default:
						ts.DeleteByType(typeKeys[in.key])
					}
					return storeOut{0}
				}
				if rec == nil {
					f()
				} else {
					rec.do(i, in, f)
				}
			}
		}(i)
	}
	close(start)
	wg.Wait()
	return g * per
}

func stressState(rngN func(int) int, rec *recorder) int {
	st := util.StateDisconnected
	g := 2 + rngN(6)
	per := 5 + rngN(20)
	var wg sync.WaitGroup
	start := make(chan struct{})
	plans := make([][]stateIn, g)
	for i := range plans {
		for k := 0; k < per; k++ {
			plans[i] = append(plans[i], stateIn{set: rngN(2) == 0, v: util.ClientState(rngN(4))})
		}
	}
	for i := 0; i < g; i++ {
		wg.Add(1)
		go func(i int) {
			defer wg.Done()
			<-start
			for _, in := range plans[i] {
				f := func() interface{} {
					if in.set {
						return st.Set(in.v)
					}
					return st.Get()
				}
				if rec == nil {
					f()
				} else {
					rec.do(i, in, f)
				}
			}
		}(i)
	}
	close(start)
	wg.Wait()
	return g * per
}

func TestC29(t *testing.T) {
	r := rt.Start(t, "C29")
	raceOnly := os.Getenv("VERIF_PHASE") == "race"
	nHist := r.N(6000, 120000)
	if raceOnly {
		nHist = r.N(3000, 30000)
	}
	total := 1 + nHist
	r.Each(t, total, 0, func(i int) string {
		if i == 0 {
			return "sequential: all 0<=min<=max<=6 and three full-width ranges, 3 cycles each"
		}
		return fmt.Sprintf("concurrent history %d (%s)", i, []string{"IDSequence", "TransactionStore", "ClientState"}[i%3])
	}, func(t *testing.T, c *rt.Case) {
		rng := c.Rand()
		if c.I == 0 {
			n := 0
			var rs [][2]uint16
			for mn := 0; mn <= 6; mn++ {
				for mx := mn; mx <= 6; mx++ {
					rs = append(rs, [2]uint16{uint16(mn), uint16(mx)})
				}
			}
			rs = append(rs, [2]uint16{1, 0xFFFF}, [2]uint16{0, 0xFFFF}, [2]uint16{0xFFFE, 0xFFFF}, [2]uint16{1, 0xFFFE})
			for _, rg := range rs {
				s := util.NewIDSequence(rg[0], rg[1])
				next, ov := rg[0], false
				width := int(rg[1]) - int(rg[0]) + 1
				for k := 0; k < 3*width+2; k++ {
					id, o := s.Next()
					if id != next || o != ov {
						c.Violation("sequential-model", fmt.Sprintf("IDSequence(%d,%d) call %d returned (%d,%v), model says (%d,%v)", rg[0], rg[1], k, id, o, next, ov), nil)
						break
					}
					if next == rg[1] {
						next, ov = rg[0], true
					} else {
						next, ov = next+1, false
					}
				}
				n++
			}
			c.Evals(n)
			c.Distinct(n)
			return
		}
		var rec *recorder
		if !raceOnly {
			rec = &recorder{}
		}
		var model porcupine.Model
		var nops int
		kind := c.I % 3
		switch kind {
		case 0:
			mn, mx, n := stressSeq(rng, rec)
			model, nops = seqModel(mn, mx), n
		case 1:
			nops = stressStore(0, rng.Intn, rec)
			model = storeModel
		case 2:
			nops = stressState(rng.Intn, rec)
			model = stateModel
		}
		r.Count("operations", nops)
		if rec == nil {
			c.Key("race-stress|%d|%d", kind, nops)
			return
		}
		// count overlapping pairs: a history is non-trivial when at least two operations overlapped in time
		overlap := 0
		for i := 1; i < len(rec.ops); i++ {
			if rec.ops[i].Call < rec.ops[i-1].Return && rec.ops[i].ClientId != rec.ops[i-1].ClientId {
				overlap++
			}
		}
		res, info := porcupine.CheckOperationsVerbose(model, rec.ops, 60*time.Second)
		switch res {
		case porcupine.Illegal:
			var desc []string
			for _, o := range rec.ops {
				desc = append(desc, fmt.Sprintf("c%d [%d,%d] in=%v out=%v", o.ClientId, o.Call, o.Return, o.Input, o.Output))
			}
			_ = info
			c.Violation(fmt.Sprintf("not-linearizable|%s", []string{"IDSequence", "TransactionStore", "ClientState"}[kind]),
				fmt.Sprintf("recorded history of %d operations is not linearizable against the sequential model", len(rec.ops)), map[string]interface{}{"history": desc})
		case porcupine.Unknown:
			c.Inconclusive("porcupine timed out")
			return
		}
		if overlap > 0 {
			c.Key("h|%d|%d|%d", kind, len(rec.ops), overlap)
			r.Count("histories_with_overlap", 1)
		}
		if c.I <= 3 && len(rec.ops) > 0 {
			var desc []string
			for i, o := range rec.ops {
				if i >= 12 {
					break
				}
				desc = append(desc, fmt.Sprintf("c%d [%d,%d] in=%v out=%v", o.ClientId, o.Call, o.Return, o.Input, o.Output))
			}
			r.Sample(map[string]interface{}{"object": []string{"IDSequence", "TransactionStore", "ClientState"}[kind], "ops": len(rec.ops), "overlapping_neighbours": overlap, "history_head": desc})
		}
	})
	r.Finish("case 0: sequential conformance of IDSequence for all 0<=min<=max<=6 plus (1,0xFFFF),(0,0xFFFF),(0xFFFE,0xFFFF),(1,0xFFFE), three cycles each; other cases: one concurrent history each (2-8 goroutines released together, 3-35 ops each, <=3 keys) on IDSequence / TransactionStore (both key spaces) / ClientState, recorded at the call boundary with an atomic logical clock and checked by porcupine against a sequential model (store partitioned by key). A history is non-trivial when operations of different goroutines overlapped; distinct by (object, length, overlap count). Phase 'race' repeats the same stress without recording under the race detector.", nil)
}
