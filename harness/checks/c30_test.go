package checks

import (
	"fmt"
	"math/rand"
	"net"
	"os"
	"path/filepath"
	"sort"
	"strings"
	"testing"
	"time"

	"verifharness/rt"
	"verifharness/snref"
)

// c30map is the reference mapping: client -> id -> name.
type c30map map[string]map[uint16]string

func (m c30map) add(client, name string, id uint16) {
	if m[client] == nil {
		m[client] = map[uint16]string{}
	}
	m[client][id] = name
}

// name is the reference lookup: the client's own entry, else the entry for every client.
func (m c30map) name(client string, id uint16) (string, bool) {
	if n, ok := m[client][id]; ok {
		return n, true
	}
	n, ok := m["*"][id]
	return n, ok
}

func (m c30map) String() string {
	var ks []string
	for c, x := range m {
		for id, n := range x {
			ks = append(ks, fmt.Sprintf("%s:%d=%s", c, id, n))
		}
	}
	sort.Strings(ks)
	return strings.Join(ks, " ")
}

type c30cfg struct {
	file    c30map   // nil: no file
	yaml    string   // file content
	options []string // "client;name;id" or "name;id"
	viaEnv  bool     // file and options through environment variables instead of flags
	ref     c30map
}

func c30gen(rng *rand.Rand, i int) c30cfg {
	clients := []string{"c1", "c2", "*"}
	names := []string{"t/x", "t/y", "t/z", "t/w"}
	var cf c30cfg
	cf.ref = c30map{}
	if i == 0 {
		// the repository's own example file
		b, _ := os.ReadFile(filepath.Join(repoDir(), "topics/testdata/topics.yaml"))
		cf.yaml = string(b)
		cf.file = c30map{"client1": {1: "device/000001/data", 2: "device/000001/config"}, "*": {1: "device/any/data", 2: "device/any/config", 3: "device/any/bcast"}}
	} else if rng.Intn(5) > 0 {
		cf.file = c30map{}
		emptyFile := i%6 == 5 // every sixth configuration has a topics file without entries (and usually options)
		var sb strings.Builder
		sb.WriteString("---\n")
		for _, c := range clients {
			var lines []string
			for id := uint16(1); id <= 3; id++ {
				if !emptyFile && rng.Intn(2) == 0 {
					n := names[rng.Intn(len(names))]
					cf.file.add(c, n, id)
					lines = append(lines, fmt.Sprintf("  %d: %s\n", id, n))
				}
			}
			if len(lines) > 0 {
				key := c
				if c == "*" {
					key = "\"*\""
				}
				sb.WriteString(key + ":\n" + strings.Join(lines, ""))
			}
		}
		cf.yaml = sb.String()
		if len(cf.file) == 0 {
			// an empty mapping, or a YAML document that is empty / null (read as "no entries")
			cf.yaml = []string{"---\n{}\n", "---\n", "~\n", "# nothing predefined here\n---\n", "null\n"}[rng.Intn(5)]
		}
	}
	for c, x := range cf.file {
		for id, n := range x {
			cf.ref.add(c, n, id)
		}
	}
	if rng.Intn(2) == 0 {
		// option-heavy: more option entries for one client than the file has for it, some of them
		// redefining IDs of the file
		cl := []string{"c1", "c2", "*"}[rng.Intn(3)]
		for id := uint16(1); id <= 4; id++ {
			if rng.Intn(4) == 0 {
				continue
			}
			n := names[rng.Intn(len(names))]
			if cl == "*" && rng.Intn(2) == 0 {
				cf.options = append(cf.options, fmt.Sprintf("%s;%d", n, id))
			} else {
				cf.options = append(cf.options, fmt.Sprintf("%s;%s;%d", cl, n, id))
			}
			cf.ref.add(cl, n, id)
		}
	}
	for k := rng.Intn(4); k > 0; k-- {
		n := names[rng.Intn(len(names))]
		id := uint16(1 + rng.Intn(3))
		if rng.Intn(3) == 0 {
			cf.options = append(cf.options, fmt.Sprintf("%s;%d", n, id))
			cf.ref.add("*", n, id)
		} else {
			c := []string{"c1", "c2", "client1"}[rng.Intn(3)]
			cf.options = append(cf.options, fmt.Sprintf("%s;%s;%d", c, n, id))
			cf.ref.add(c, n, id)
		}
	}
	cf.viaEnv = rng.Intn(4) == 0
	return cf
}

// args returns flags and environment for one tool run.
func (cf c30cfg) args(dir string, caseNo int) (args []string, env []string) {
	if cf.yaml != "" {
		f := filepath.Join(dir, fmt.Sprintf("topics-%d.yaml", caseNo))
		os.WriteFile(f, []byte(cf.yaml), 0o644)
		if cf.viaEnv {
			env = append(env, "PREDEFINED_TOPICS_FILE="+f)
		} else {
			args = append(args, "--predefined-topics-file", f)
		}
	}
	if len(cf.options) > 0 {
		if cf.viaEnv {
			env = append(env, "PREDEFINED_TOPIC="+strings.Join(cf.options, ","))
		} else {
			for _, o := range cf.options {
				args = append(args, "--predefined-topic", o)
			}
		}
	}
	return
}

func TestC30(t *testing.T) {
	r := rt.Start(t, "C30")
	bins, err := cliBins()
	if err != nil {
		t.Log(err)
		r.Each(t, 1, 1, nil, func(t *testing.T, c *rt.Case) { c.Inconclusive("the tools do not build: " + err.Error()) })
		r.Finish("tools do not build", nil)
		return
	}
	n := r.N(40, 400)
	tmp := r.Out
	r.Each(t, n, 8, nil, func(t *testing.T, c *rt.Case) {
		rng := c.Rand()
		cf := c30gen(rng, c.I)
		c.Desc = fmt.Sprintf("file={%s} options=%v via-env=%v => mapping {%s}", cf.file, cf.options, cf.viaEnv, cf.ref)
		targs, tenv := cf.args(tmp, c.I)
		witness := func(extra map[string]interface{}) map[string]interface{} {
			m := map[string]interface{}{"yaml": cf.yaml, "options": cf.options, "via_env": cf.viaEnv, "reference_mapping": cf.ref.String()}
			for k, v := range extra {
				m[k] = v
			}
			return m
		}
		probes := 0
		clientsToProbe := []string{"c1", "c2", "client1", "nobody"}
		// ------------------------------------------------ bisquitt (the gateway)
		func() {
			br, err := newFakeBroker()
			if err != nil {
				c.Inconclusive("no loopback TCP")
				return
			}
			defer br.close()
			port, err := freeUDPPort()
			if err != nil {
				c.Inconclusive("no loopback UDP")
				return
			}
			args := append([]string{"--host", "127.0.0.1", "--port", fmt.Sprint(port), "--mqtt-host", "127.0.0.1", "--mqtt-port", fmt.Sprint(br.port())}, targs...)
			tool, err := startTool(filepath.Join(bins, "bisquitt"), args, cleanEnv(tenv...))
			if err != nil {
				c.Inconclusive("cannot start bisquitt: " + err.Error())
				return
			}
			defer tool.stop()
			// wait until it listens (or exits)
			up := false
			for k := 0; k < 300; k++ {
				if _, exited := tool.wait(0); exited {
					break
				}
				if tool.ownsUDPPort(port) {
					up = true
					break
				}
				time.Sleep(10 * time.Millisecond)
			}
			if _, exited := tool.wait(0); exited && strings.Contains(tool.output(), "address already in use") {
				c.Inconclusive("the UDP port chosen for bisquitt was taken by another process")
				return
			}
			if code, exited := tool.wait(0); exited {
				c.Violation("tool-exits|bisquitt", fmt.Sprintf("bisquitt exited with status %d on a valid predefined-topics configuration", code), witness(map[string]interface{}{"args": args, "output": tool.output()}))
				return
			}
			if !up {
				c.Inconclusive("bisquitt did not bind its port within 3 s")
				return
			}
			for _, cl := range clientsToProbe {
				for id := uint16(1); id <= 4; id++ {
					if rng.Intn(2) == 0 {
						continue
					}
					want, has := cf.ref.name(cl, id)
					tag := fmt.Sprintf("probe-%d-%s-%d", c.I, cl, id)
					conn, err := net.Dial("udp", fmt.Sprintf("127.0.0.1:%d", port))
					if err != nil {
						continue
					}
					got := make(chan *snref.Pkt, 16)
					go func() {
						buf := make([]byte, 2048)
						for {
							conn.SetReadDeadline(time.Now().Add(3 * time.Second))
							n, err := conn.Read(buf)
							if err != nil {
								close(got)
								return
							}
							if p, _ := snref.ParseLoose(append([]byte(nil), buf[:n]...)); p != nil {
								got <- p
							}
						}
					}()
					waitType := func(ty byte, d time.Duration) *snref.Pkt {
						deadline := time.After(d)
						for {
							select {
							case p, ok := <-got:
								if !ok {
									return nil
								}
								if p.Type == ty || p.Type == snref.DISCONNECT {
									return p
								}
							case <-deadline:
								return nil
							}
						}
					}
					conn.Write(snref.Connect(cl, 60, false, true).Encode())
					if p := waitType(snref.CONNACK, 2*time.Second); p == nil || p.Type != snref.CONNACK {
						conn.Close()
						c.Inconclusive("no CONNACK from bisquitt")
						return
					}
					conn.Write(snref.Publish(1, id, 1, 1, false, false, []byte(tag)).Encode())
					p := waitType(snref.PUBACK, 2*time.Second)
					conn.Close()
					probes++
					seen := br.publishWith(tag)
					switch {
					case has && seen == nil:
						c.Violation("gateway-mapping|missing", fmt.Sprintf("bisquitt: client %q, predefined ID %d should mean %q, but the PUBLISH did not reach the broker (reply %v)", cl, id, want, p), witness(map[string]interface{}{"args": args}))
					case has && seen.Topic != want:
						c.Violation("gateway-mapping|wrong-name", fmt.Sprintf("bisquitt: client %q, predefined ID %d should mean %q, the broker saw %q", cl, id, want, seen.Topic), witness(map[string]interface{}{"args": args}))
					case !has && seen != nil:
						c.Violation("gateway-mapping|unexpected", fmt.Sprintf("bisquitt: client %q has no predefined ID %d, yet the broker saw a PUBLISH on %q", cl, id, seen.Topic), witness(map[string]interface{}{"args": args}))
					case !has && p == nil:
						c.Inconclusive("no reaction to an unknown predefined ID within 2 s")
					}
				}
			}
		}()
		// ------------------------------------------------ bisquitt-pub and bisquitt-sub
		names := []string{"t/x", "t/y", "t/z", "t/w", "device/any/data", "device/000001/data", "t/none"}
		for _, tool := range []string{"bisquitt-pub", "bisquitt-sub"} {
			for _, cl := range clientsToProbe {
				if rng.Intn(2) == 0 {
					continue
				}
				name := names[rng.Intn(len(names))]
				gw, err := newFakeGw()
				if err != nil {
					c.Inconclusive("no loopback UDP")
					return
				}
				args := []string{"--host", "127.0.0.1", "--port", fmt.Sprint(gw.port()), "--client-id", cl, "--topic", name}
				if tool == "bisquitt-pub" {
					args = append(args, "--message", "hello", "--qos", "1")
				}
				args = append(args, targs...)
				run, err := startTool(filepath.Join(bins, tool), args, cleanEnv(tenv...))
				if err != nil {
					gw.close()
					c.Inconclusive("cannot start " + tool)
					return
				}
				wantType := byte(snref.PUBLISH)
				if tool == "bisquitt-sub" {
					wantType = snref.SUBSCRIBE
				}
				// the observation: the PUBLISH / SUBSCRIBE on the wire, or the tool's exit
				var pkt *snref.Pkt
				deadline := time.Now().Add(4 * time.Second)
				for time.Now().Before(deadline) {
					if pkt = gw.waitFor(20*time.Millisecond, func(p *snref.Pkt) bool { return p.Type == wantType }); pkt != nil {
						break
					}
					if _, exited := run.wait(0); exited {
						pkt = gw.waitFor(50*time.Millisecond, func(p *snref.Pkt) bool { return p.Type == wantType })
						break
					}
				}
				code, exited := run.wait(0)
				if tool == "bisquitt-pub" && pkt != nil {
					code, exited = run.wait(3 * time.Second)
				}
				run.stop()
				pkts := gw.packets()
				gw.close()
				probes++
				var wire []string
				for _, p := range pkts {
					wire = append(wire, p.String())
				}
				w := witness(map[string]interface{}{"tool": tool, "args": args, "env": tenv, "wire": wire, "output": run.output()})
				if pkt == nil {
					if exited && code != 0 {
						c.Violation("tool-exits|"+tool, fmt.Sprintf("%s exited with status %d on a valid predefined-topics configuration (topic %q, client %q)", tool, code, name, cl), w)
					} else {
						c.Inconclusive(fmt.Sprintf("%s sent no %s within 4 s", tool, snref.TypeName(wantType)))
					}
					continue
				}
				if tool == "bisquitt-pub" && exited && code != 0 {
					c.Violation("tool-exits|"+tool, fmt.Sprintf("%s exited with status %d although the gateway answered everything", tool, code), w)
				}
				// is there an ID that means this name for this client?
				var ids []uint16
				for id := uint16(0); id < 10; id++ {
					if n, ok := cf.ref.name(cl, id); ok && n == name {
						ids = append(ids, id)
					}
				}
				if pkt.TIT == 1 {
					n, ok := cf.ref.name(cl, pkt.TopicID)
					if !ok || n != name {
						c.Violation("client-tool-mapping|wrong-id|"+tool, fmt.Sprintf("%s used predefined ID %d for topic %q as client %q; by the configuration that ID means (%q,%v)", tool, pkt.TopicID, name, cl, n, ok), w)
					}
				} else if len(ids) > 0 {
					c.Violation("client-tool-mapping|not-used|"+tool, fmt.Sprintf("%s did not use a predefined ID for topic %q as client %q although the configuration defines %v for it", tool, name, cl, ids), w)
				}
			}
		}
		r.Count("probes", probes)
		if probes > 0 {
			c.Key("%s", c.Desc)
		}
		if c.I == 1 || c.I == 2 {
			r.Sample(map[string]interface{}{"yaml": cf.yaml, "options": cf.options, "via_env": cf.viaEnv, "reference_mapping": cf.ref.String(), "probes": probes})
		}
	})
	r.Finish("the three command-line tools are built from the tree under test with the default toolchain and run as processes on loopback. Configurations: the repository's topics.yaml and random small YAML files (clients c1, c2, '*'; IDs 1-3; names t/x..t/w; also empty mappings and empty / null documents) plus 0-3 --predefined-topic options (2- and 3-field forms, overlapping clients and IDs), given as flags or through PREDEFINED_TOPICS_FILE / PREDEFINED_TOPIC. Reference mapping: file entries overridden entry by entry by the options in order, 2-field options meaning '*'. bisquitt: UDP peers connect as c1/c2/client1/nobody and publish QoS 1 with predefined IDs 1-4; a fake TCP broker must see exactly the reference name, or nothing when the reference has none. bisquitt-pub / bisquitt-sub against a fake UDP gateway: the PUBLISH / SUBSCRIBE on the wire must use a predefined ID that means the topic for that client, or none when there is none; a tool exiting non-zero on a valid configuration is a violation. Real time with watchdogs; a silent tool is inconclusive.", nil)
}
