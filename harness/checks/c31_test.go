package checks

import (
	"fmt"
	"path/filepath"
	"strings"
	"testing"
	"testing/synctest"
	"time"

	"github.com/energomonitor/bisquitt/client"

	"verifharness/rt"
	"verifharness/snref"
	"verifharness/world"
)

// c31opt is how one option is given: "", "flag", "env", "env-false".
type c31case struct {
	tool     string // bisquitt, bisquitt-pub, bisquitt-sub
	auth     string // --auth (gateway) / --user (clients): "", flag, env
	password string // clients only: "", flag, env
	dtls     string // "", flag, env, env-false
	insecure string // "", flag, env, env-false
}

func (k c31case) String() string {
	return fmt.Sprintf("%s auth/user=%q password=%q dtls=%q insecure=%q", k.tool, k.auth, k.password, k.dtls, k.insecure)
}

func c31cases() []c31case {
	var out []c31case
	for _, tool := range []string{"bisquitt", "bisquitt-pub", "bisquitt-sub"} {
		pws := []string{"", "flag", "env"}
		if tool == "bisquitt" {
			pws = []string{""}
		}
		for _, a := range []string{"", "flag", "env"} {
			for _, p := range pws {
				for _, d := range []string{"", "flag", "env", "env-false"} {
					for _, i := range []string{"", "flag", "env", "env-false"} {
						out = append(out, c31case{tool, a, p, d, i})
					}
				}
			}
		}
	}
	return out
}

func on(v string) bool { return v == "flag" || v == "env" }

func c31process(t *testing.T, r *rt.Run, c *rt.Case, k c31case, bins string) {
	c.Desc = k.String()
	var args, env []string
	boolOpt := func(v, flag, envName string) {
		switch v {
		case "flag":
			args = append(args, "--"+flag)
		case "env":
			env = append(env, envName+"=true")
		case "env-false":
			env = append(env, envName+"=false")
		}
	}
	authOn := on(k.auth)
	dtlsOn := on(k.dtls)
	insecureOn := on(k.insecure)
	wantRefuse := authOn && !dtlsOn && !insecureOn
	boolOpt(k.dtls, "dtls", "DTLS_ENABLED")
	boolOpt(k.insecure, "insecure", "INSECURE")
	if dtlsOn {
		args = append(args, "--self-signed")
	}
	witness := func(x map[string]interface{}) map[string]interface{} {
		m := map[string]interface{}{"case": k.String(), "args": args, "env": env, "expected_refusal": wantRefuse}
		for a, b := range x {
			m[a] = b
		}
		return m
	}
	if k.tool == "bisquitt" {
		boolOpt(k.auth, "auth", "AUTH")
		br, err := newFakeBroker()
		if err != nil {
			c.Inconclusive("no loopback TCP")
			return
		}
		defer br.close()
		port, err := freeUDPPort()
		if err != nil {
			c.Inconclusive("no loopback UDP")
			return
		}
		args = append([]string{"--host", "127.0.0.1", "--port", fmt.Sprint(port), "--mqtt-host", "127.0.0.1", "--mqtt-port", fmt.Sprint(br.port())}, args...)
		tool, err := startTool(filepath.Join(bins, "bisquitt"), args, cleanEnv(env...))
		if err != nil {
			c.Inconclusive("cannot start bisquitt")
			return
		}
		defer tool.stop()
		bound := false
		exited := false
		code := 0
		for i := 0; i < 400; i++ {
			if cd, ex := tool.wait(0); ex {
				exited, code = true, cd
				break
			}
			if tool.ownsUDPPort(port) {
				bound = true
				break
			}
			time.Sleep(10 * time.Millisecond)
		}
		switch {
		case wantRefuse && bound:
			c.Violation("started-insecurely|bisquitt", "bisquitt with --auth, without DTLS and without --insecure started and listens: "+k.String(), witness(map[string]interface{}{"output": tool.output()}))
		case wantRefuse && exited && code == 0:
			c.Violation("refusal-exit-status|bisquitt", "bisquitt refused to start but exited with status 0: "+k.String(), witness(map[string]interface{}{"output": tool.output()}))
		case wantRefuse && !exited:
			c.Inconclusive("bisquitt neither exited nor bound its port within 4 s")
		case !wantRefuse && exited && strings.Contains(tool.output(), "address already in use"):
			c.Inconclusive("the UDP port chosen for bisquitt was taken by another process")
		case !wantRefuse && exited:
			c.Violation("refused-needlessly|bisquitt", fmt.Sprintf("bisquitt exited with status %d although the configuration is allowed: %s", code, k), witness(map[string]interface{}{"output": tool.output()}))
		case !wantRefuse && !bound:
			c.Inconclusive("bisquitt did not bind its port within 4 s")
		}
		c.Key("%s", k)
		return
	}
	// ---- client tools
	switch k.auth {
	case "flag":
		args = append(args, "--user", "alice")
	case "env":
		env = append(env, "USERNAME=alice")
	}
	switch k.password {
	case "flag":
		args = append(args, "--password", "s3cret")
	case "env":
		env = append(env, "PASSWORD=s3cret")
	}
	gw, err := newFakeGw()
	if err != nil {
		c.Inconclusive("no loopback UDP")
		return
	}
	defer gw.close()
	args = append([]string{"--host", "127.0.0.1", "--port", fmt.Sprint(gw.port()), "--client-id", "cl", "--topic", "ab"}, args...)
	if k.tool == "bisquitt-pub" {
		args = append(args, "--message", "m")
	}
	tool, err := startTool(filepath.Join(bins, k.tool), args, cleanEnv(env...))
	if err != nil {
		c.Inconclusive("cannot start " + k.tool)
		return
	}
	defer tool.stop()
	// first datagram(s) or exit
	var raws [][]byte
	exited := false
	code := 0
	for i := 0; i < 500; i++ {
		raws = gw.raws()
		if len(raws) >= 2 || (len(raws) >= 1 && (dtlsOn || !authOn)) {
			break
		}
		if cd, ex := tool.wait(0); ex {
			exited, code = true, cd
			time.Sleep(30 * time.Millisecond)
			raws = gw.raws()
			break
		}
		time.Sleep(10 * time.Millisecond)
	}
	var first []string
	for i, b := range raws {
		if i < 3 {
			first = append(first, fmt.Sprintf("%x", cut(b, 40)))
		}
	}
	w := witness(map[string]interface{}{"first_datagrams": first, "output": tool.output()})
	if wantRefuse {
		switch {
		case len(raws) > 0:
			c.Violation("started-insecurely|"+k.tool, fmt.Sprintf("%s with --user, without DTLS and without --insecure sent %d datagram(s): %s", k.tool, len(raws), k), w)
		case exited && code == 0:
			c.Violation("refusal-exit-status|"+k.tool, k.tool+" refused to start but exited with status 0: "+k.String(), w)
		case !exited:
			c.Inconclusive(k.tool + " neither exited nor sent anything within 5 s")
		}
		c.Key("%s", k)
		return
	}
	if len(raws) == 0 {
		if exited {
			c.Violation("refused-needlessly|"+k.tool, fmt.Sprintf("%s exited with status %d without sending anything although the configuration is allowed: %s", k.tool, code, k), w)
		} else {
			c.Inconclusive(k.tool + " sent nothing within 5 s")
		}
		c.Key("%s", k)
		return
	}
	if dtlsOn {
		// a DTLS handshake record: content type 22, version 0xfeff/0xfefd
		if raws[0][0] != 22 {
			c.Violation("plaintext-with-dtls|"+k.tool, fmt.Sprintf("%s with --dtls sent a first datagram that is not a DTLS handshake record: %x", k.tool, cut(raws[0], 24)), w)
		}
		for _, b := range raws {
			if p, err := snref.Parse(b); err == nil && (p.Type == snref.CONNECT || p.Type == snref.AUTH) {
				c.Violation("plaintext-with-dtls|"+k.tool, fmt.Sprintf("%s with --dtls sent a plaintext %s", k.tool, snref.TypeName(p.Type)), w)
			}
		}
		c.Key("%s", k)
		return
	}
	p0, _ := snref.ParseLoose(raws[0])
	if p0 == nil || p0.Type != snref.CONNECT {
		c.Violation("first-datagram-not-connect|"+k.tool, fmt.Sprintf("%s: first datagram is not a CONNECT: %x", k.tool, cut(raws[0], 24)), w)
		c.Key("%s", k)
		return
	}
	var p1 *snref.Pkt
	if len(raws) > 1 {
		p1, _ = snref.ParseLoose(raws[1])
	}
	if authOn {
		wantData := "\x00alice\x00"
		if on(k.password) {
			wantData += "s3cret"
		}
		if p1 == nil || p1.Type != snref.AUTH {
			c.Violation("auth-missing|"+k.tool, fmt.Sprintf("%s with --user: the CONNECT was not immediately followed by AUTH", k.tool), w)
		} else if p1.Name != "PLAIN" || string(p1.Data) != wantData {
			c.Violation("auth-wrong-credentials|"+k.tool, fmt.Sprintf("%s with --user alice: AUTH carries method %q data %q, expected PLAIN %q", k.tool, p1.Name, p1.Data, wantData), w)
		}
	} else {
		for _, b := range gw.raws() {
			if p, _ := snref.ParseLoose(b); p != nil && p.Type == snref.AUTH {
				c.Violation("auth-without-user|"+k.tool, k.tool+" without --user sent an AUTH packet", w)
			}
		}
	}
	c.Key("%s", k)
}

// c31library: the client library in virtual time against a silent gateway, so that CONNECT is retransmitted.
func c31library(t *testing.T, r *rt.Run, c *rt.Case, i int) {
	rc := i % 4
	user := (i/4)%2 == 1
	pw := (i/8)%2 == 1
	answerAt := (i / 16) % 3 // 0: never, 1: after the first CONNECT, 2: after the second
	c.Desc = fmt.Sprintf("library: user=%v password=%v RetryCount=%d gateway answers CONNECT no. %d (0 = never)", user, pw, rc, answerAt)
	var evs []world.Ev
	bubble(t, func() {
		tr := world.NewTrace()
		n := 0
		g := world.NewGwPeer(tr, 0, func(g *world.GwPeer, p *snref.Pkt, raw []byte) {
			if p != nil && p.Type == snref.CONNECT {
				n++
				if n == answerAt {
					g.Send(snref.Connack(0))
				}
			}
			if p != nil && p.Type == snref.DISCONNECT {
				g.Send(snref.Disconnect())
			}
		})
		cfg := &client.ClientConfig{ClientID: "cl", RetryDelay: 10 * time.Second, RetryCount: uint(rc), ConnectTimeout: 5 * time.Second, CleanSession: true}
		if user {
			cfg.User = "bob"
		}
		if pw {
			cfg.Password = []byte("pw")
		}
		cl := newClientOn(g.Link.A, cfg)
		cl.Dial("mem")
		a := newAPI(tr, 0)
		a.Go("Connect", cl.Connect)
		time.Sleep(time.Duration(rc+2) * 6 * time.Second)
		synctest.Wait()
		// a second Connect() on the same client object (reconnect)
		a.Go("Connect", cl.Connect)
		time.Sleep(time.Duration(rc+2) * 6 * time.Second)
		synctest.Wait()
		cl.Close()
		time.Sleep(3 * time.Second)
		g.Close()
		synctest.Wait()
		evs = tr.Events()
	})
	witness := map[string]interface{}{"case": c.Desc, "trace": world.Strings(evs, 60)}
	var in []*snref.Pkt
	for _, e := range evs {
		if e.Kind == world.SNIn {
			if p, _ := snref.ParseLoose(e.B); p != nil {
				in = append(in, p)
			}
		}
	}
	connects := 0
	for j, p := range in {
		if p.Type == snref.AUTH && !user {
			c.Violation("library|auth-without-user", "a client configured without a user sent an AUTH packet", witness)
		}
		if p.Type != snref.CONNECT {
			continue
		}
		connects++
		if !user {
			continue
		}
		want := "\x00bob\x00"
		if pw {
			want += "pw"
		}
		if j+1 >= len(in) || in[j+1].Type != snref.AUTH {
			c.Violation(fmt.Sprintf("library|auth-missing-after-connect|transmission=%d", minInt(connects, 2)), fmt.Sprintf("CONNECT transmission no. %d was not immediately followed by AUTH", connects), witness)
		} else if in[j+1].Name != "PLAIN" || string(in[j+1].Data) != want {
			c.Violation("library|auth-wrong-credentials", fmt.Sprintf("AUTH after CONNECT carries method %q data %q, expected PLAIN %q", in[j+1].Name, in[j+1].Data, want), witness)
		}
	}
	r.Count("library_connect_transmissions", connects)
	if connects > 0 {
		c.Key("%s", c.Desc)
	}
}

func TestC31(t *testing.T) {
	r := rt.Start(t, "C31")
	bins, err := cliBins()
	if err != nil {
		t.Log(err)
		r.Each(t, 1, 1, nil, func(t *testing.T, c *rt.Case) { c.Inconclusive("the tools do not build: " + err.Error()) })
		r.Finish("tools do not build", nil)
		return
	}
	cases := c31cases()
	nLib := 48
	r.Each(t, len(cases)+nLib, 8, nil, func(t *testing.T, c *rt.Case) {
		if c.I >= len(cases) {
			c31library(t, r, c, c.I-len(cases))
			return
		}
		c31process(t, r, c, cases[c.I], bins)
		if c.I == 5 || c.I == 100 {
			r.Sample(map[string]interface{}{"case": c.Desc})
		}
	})
	r.Finish(fmt.Sprintf("all %d combinations of {--auth (bisquitt) / --user (bisquitt-pub, bisquitt-sub): absent, flag, environment} x {--password: absent, flag, environment (client tools)} x {--dtls: absent, flag, DTLS_ENABLED=true, DTLS_ENABLED=false} x {--insecure: absent, flag, INSECURE=true, INSECURE=false} for the three built binaries run as processes on loopback (exhaustive for that option space). Expected: refuse to start exactly when credentials are in play, DTLS is off and --insecure is not given. Observations: refusal = non-zero exit, UDP port never bound (gateway) / no datagram at the fake gateway (clients); start = port bound (gateway) / first datagrams at the fake gateway: with --dtls a DTLS handshake record and no plaintext CONNECT/AUTH, else CONNECT immediately followed by AUTH(PLAIN, user, password) iff a user is configured. Plus %d virtual-time runs of the client library against a gateway that answers the n-th CONNECT or never (RetryCount 0-3, user/password on/off, two Connect() calls): no user => no AUTH at all, user => every CONNECT transmission, retransmissions included, is immediately followed by AUTH with the configured credentials.", len(cases), nLib), nil)
}

var _ = strings.Join
