package checks

import (
	"fmt"
	"math/rand"
	"sort"
	"strings"
	"testing"
	"testing/synctest"
	"time"

	"github.com/energomonitor/bisquitt/client"
	p1 "github.com/energomonitor/bisquitt/packets1"
	"github.com/energomonitor/bisquitt/topics"

	"verifharness/mqttref"
	"verifharness/rt"
	"verifharness/world"
)

// c32config builds the configuration number code over clients {cl, other, *} x ids x names.
func c32config(code int, clients []string, ids []uint16, names []string) topics.PredefinedTopics {
	cfg := topics.PredefinedTopics{}
	d := code
	for _, cl := range clients {
		for _, id := range ids {
			if nm := names[d%len(names)]; nm != "" {
				cfg.Add(cl, nm, id)
			}
			d /= len(names)
		}
	}
	return cfg
}

func TestC32(t *testing.T) {
	r := rt.Start(t, "C32")
	// exhaustive small space: clients {cl,*} x ids {1,2} x names {p/x, p/y, zz, absent} = 256 configs
	smallClients, smallIDs, smallNames := []string{"cl", "*"}, []uint16{1, 2}, []string{"", "p/x", "p/y", "zz"}
	nSmall := 256
	// sampled large space: clients {cl,other,*} x ids {1,2,3} x names {p/x,p/y,p/z,zz,absent} = 5^9
	bigClients, bigIDs, bigNames := []string{"cl", "other", "*"}, []uint16{1, 2, 3}, []string{"", "p/x", "p/y", "p/z", "zz"}
	nBig := r.N(700, 14000)
	alpha := []byte("ab/Z0-")
	var shorts []string
	for _, x := range alpha {
		for _, y := range alpha {
			shorts = append(shorts, string([]byte{x, y}))
		}
	}
	total := nSmall + nBig
	r.Each(t, total, 0, nil, func(t *testing.T, c *rt.Case) {
		rng := c.Rand()
		var cfg topics.PredefinedTopics
		if c.I < nSmall {
			cfg = c32config(c.I, smallClients, smallIDs, smallNames)
		} else {
			cfg = c32config(rng.Intn(1953125), bigClients, bigIDs, bigNames)
		}
		clientID := []string{"cl", "cl", "other", "nobody"}[rng.Intn(4)]
		if c.I < nSmall {
			clientID = []string{"cl", "nobody"}[c.I%2]
		}
		if c.I >= nSmall && clientID == "cl" && c.I%5 == 0 {
			// a client ID longer than the 23 characters MQTT-SN recommends (bisquitt-pub/-sub generate such IDs):
			// the section of the configuration is keyed by the whole ID
			long := "bisquitt-client-0123456789abcdef"
			if m, ok := cfg["cl"]; ok {
				cfg[long] = m
				delete(cfg, "cl")
			}
			clientID = long
		}
		// names the application uses: every name of the configuration, a name that is nowhere, some short names
		nameSet := map[string]bool{"p/none": true, "zz": true}
		for _, m := range cfg {
			for _, n := range m {
				nameSet[n] = true
			}
		}
		for k := 0; k < 5; k++ {
			nameSet[shorts[rng.Intn(len(shorts))]] = true
		}
		if rng.Intn(3) == 0 {
			nameSet[string([]byte{byte(1 + rng.Intn(126)), byte(1 + rng.Intn(126))})] = true
		}
		// a single 2-byte UTF-8 character (U+0080..U+07FF) is a legal short topic name too
		for k := 0; k < 2; k++ {
			nameSet[string(rune(0x80+rng.Intn(0x800-0x80)))] = true
		}
		var names []string
		for n := range nameSet {
			if strings.ContainsAny(n, "+#") {
				continue
			}
			names = append(names, n)
		}
		sort.Strings(names)
		c.Desc = fmt.Sprintf("client=%s cfg=%s names=%q", clientID, cfgString(cfg), names)
		type upPub struct{ name, payload, how string }
		var ups []upPub
		var downs []upPub
		var expSubs []string
		var callErrs []string
		var evs []world.Ev
		bubble(t, func() {
			cc := stdClientCfg(clientID)
			cc.KeepAlive = time.Hour
			cc.PredefinedTopics = cfg
			if c.I%3 == 1 {
				// a client with a last will connects through the WILLTOPIC/WILLMSG dialogue
				cc.WillTopic, cc.WillPayload, cc.WillQOS = "will/"+clientID, []byte("gone"), 1
			}
			f := newFullWorld(world.GWConfig{Predefined: cfg, RetryDelay: 10 * time.Second, RetryCount: 1}, world.BrokerCfg{FirstID: 30000, Route: true}, cc)
			tr := f.W.Tr
			do := func(name string, fn func() error) {
				if err := fn(); err != nil {
					callErrs = append(callErrs, name+" -> "+err.Error())
				}
				synctest.Wait()
			}
			do("connect", f.Cl.Connect)
			do("subscribe(#)", func() error { return f.Cl.Subscribe("#", 2, cbRecorder(tr, 0, "#")) })
			tag := 0
			for _, n := range names {
				n := n
				tag++
				pl := fmt.Sprintf("u%d", tag)
				qos := uint8(rng.Intn(3))
				// exactly what bisquitt-pub does with a topic name
				if id, ok := cfg.GetTopicID(clientID, n); ok {
					do(fmt.Sprintf("publishPredefined(%d for %q)", id, n), func() error { return f.Cl.PublishPredefined(id, []byte(pl), qos, false) })
					ups = append(ups, upPub{n, pl, fmt.Sprintf("predefined id %d", id)})
				} else if len(n) == 2 {
					do(fmt.Sprintf("publish(short %q)", n), func() error { return f.Cl.Publish(n, []byte(pl), qos, false) })
					ups = append(ups, upPub{n, pl, "short"})
				}
			}
			// third-party messages on every name, incl. names predefined for other clients only
			for _, n := range names {
				tag++
				pl := fmt.Sprintf("d%d", tag)
				f.B.Publish(f.S, n, byte(rng.Intn(3)), false, []byte(pl))
				synctest.Wait()
				downs = append(downs, upPub{n, pl, "broker"})
			}
			// subscriptions, as bisquitt-sub does
			for _, n := range names {
				n := n
				if id, ok := cfg.GetTopicID(clientID, n); ok {
					do(fmt.Sprintf("subscribePredefined(%d for %q)", id, n), func() error {
						return f.Cl.SubscribePredefined(id, 1, func(*client.Client, string, *p1.Publish) {})
					})
					expSubs = append(expSubs, n)
				} else if len(n) == 2 {
					do(fmt.Sprintf("subscribe(short %q)", n), func() error {
						return f.Cl.Subscribe(n, 1, func(*client.Client, string, *p1.Publish) {})
					})
					expSubs = append(expSubs, n)
				}
			}
			time.Sleep(25 * time.Second)
			synctest.Wait()
			evs = f.Close()
		})
		witness := map[string]interface{}{"client_id": clientID, "config": cfgString(cfg), "names": names, "trace": world.Strings(evs, 200)}
		for _, e := range callErrs {
			c.Violation("call-failed|"+opKind(e), "API call failed: "+e+" (config "+cfgString(cfg)+", client "+clientID+")", witness)
		}
		// what the broker saw
		seenTopic := map[string]string{}
		var gotSubs []string
		mq, _, _ := world.MQPackets(evs, 0, world.MQOut)
		for _, m := range mq {
			switch m.P.Type {
			case mqttref.PUBLISH:
				seenTopic[string(m.P.Payload)] = m.P.Topic
			case mqttref.SUBSCRIBE:
				gotSubs = append(gotSubs, m.P.Filters...)
			}
		}
		checked := 0
		for _, u := range ups {
			checked++
			got, ok := seenTopic[u.payload]
			if !ok {
				c.Violation("up-publish-missing|"+strings.Fields(u.how)[0], fmt.Sprintf("the client published to %q (%s) but the broker saw nothing", u.name, u.how), witness)
			} else if got != u.name {
				c.Violation("up-publish-renamed|"+strings.Fields(u.how)[0], fmt.Sprintf("the client published to %q (%s), the broker saw topic %q", u.name, u.how, got), witness)
			}
		}
		if len(gotSubs) > 0 {
			gotSubs = gotSubs[1:] // the '#' subscription
		}
		if fmt.Sprint(gotSubs) != fmt.Sprint(expSubs) {
			c.Violation("up-subscribe-renamed", fmt.Sprintf("the client subscribed to %q (predefined/short IDs), the broker saw filters %q", expSubs, gotSubs), witness)
		}
		checked += len(expSubs)
		// what the handler saw
		cbTopic := map[string][]string{}
		for _, e := range evs {
			if e.Kind == world.CB {
				var flt, tp string
				fmt.Sscanf(e.Note, "filter=%q topic=%q", &flt, &tp)
				cbTopic[string(e.B)] = append(cbTopic[string(e.B)], tp)
			}
		}
		for _, d := range append(append([]upPub{}, downs...), ups...) {
			if d.how != "broker" {
				if _, ok := seenTopic[d.payload]; !ok {
					continue // never reached the broker: reported above
				}
			}
			checked++
			got := cbTopic[d.payload]
			if len(got) == 0 {
				c.Violation("down-not-delivered|"+topicKind32(d.name, cfg, clientID), fmt.Sprintf("broker message on %q did not reach the client's handler", d.name), witness)
				continue
			}
			for _, g := range got {
				if g != d.name {
					c.Violation("down-renamed|"+topicKind32(d.name, cfg, clientID), fmt.Sprintf("broker message on %q was delivered to the handler as topic %q", d.name, g), witness)
				}
			}
		}
		r.Count("names_checked", checked)
		r.Count("events", len(evs))
		c.Key("%s", c.Desc)
		if c.I == 77 || c.I == nSmall+3 {
			r.Sample(map[string]interface{}{"client_id": clientID, "config": cfgString(cfg), "names": names, "trace_head": world.Strings(evs, 30)})
		}
	})
	r.Finish("real client library and real gateway session sharing one predefined-topic map, conforming broker model that routes the client's publishes back to its '#' subscription; virtual time, lossless. Configurations: all 256 maps over clients {cl,*} x IDs {1,2} x names {p/x,p/y,zz,absent} (exhaustive for that space) and random maps over clients {cl,other,*} x IDs {1,2,3} x names {p/x,p/y,p/z,zz,absent}; client IDs cl / other / one with no entry. Names used: every name of the map (incl. those predefined for other clients only), a name that is nowhere, 'zz', five random 2-byte names over [ab/Z0-], two random non-ASCII characters whose UTF-8 form has two bytes, and sometimes two random ASCII bytes. Up: as bisquitt-pub/-sub do, a name is looked up with GetTopicID and published/subscribed with that predefined ID, else as a short topic if it has two bytes; the broker must see exactly that name as topic/filter. Down: every routed-back and third-party broker message must reach the '#' handler under exactly the broker's topic name.", nil)
}

func topicKind32(n string, cfg topics.PredefinedTopics, clientID string) string {
	if len(n) == 2 {
		return "short"
	}
	if _, ok := cfg.GetTopicID(clientID, n); ok {
		return "predefined"
	}
	for _, m := range cfg {
		for _, x := range m {
			if x == n {
				return "predefined-for-others"
			}
		}
	}
	return "named"
}

var _ = rand.Intn
