package checks

import (
	"fmt"
	"strings"
	"sync"
	"testing"
	"testing/synctest"
	"time"

	"github.com/energomonitor/bisquitt/client"
	p1 "github.com/energomonitor/bisquitt/packets1"

	"verifharness/rt"
	"verifharness/snref"
	"verifharness/world"
)

// c33policy: how the scripted gateway answers keep-alive pings (PINGREQ without client ID).
// Waking pings (with client ID) and everything else are answered at once.
type c33policy struct {
	kind      string // "instant", "delay", "drop-first"
	delay     time.Duration
	discDelay time.Duration // the reply to a plain DISCONNECT is sent that late
}

func (p c33policy) String() string {
	if p.discDelay > 0 {
		q := p
		q.discDelay = 0
		return q.String() + fmt.Sprintf(", DISCONNECT answered %v late", p.discDelay)
	}
	if p.kind == "delay" {
		return fmt.Sprintf("keep-alive PINGRESP %v late", p.delay)
	}
	if p.kind == "drop-first" {
		return "first PINGREQ of every keep-alive exchange unanswered, retransmission answered"
	}
	return "keep-alive PINGRESP at once"
}

type c33step struct {
	tick  int           // relative to the n-th expected keep-alive tick after the last activation
	delta time.Duration // offset from that tick
	op    string        // sleep publish subscribe ping disconnect
	d     time.Duration // sleep duration
	then  string        // after sleep: "connect" or "sleep-again-then-connect"
}

func (s c33step) String() string {
	x := fmt.Sprintf("at tick %d %+v: %s", s.tick, s.delta, s.op)
	if s.op == "sleep" {
		x += fmt.Sprintf("(%v) then %s", s.d, s.then)
	}
	return x
}

func TestC33(t *testing.T) {
	r := rt.Start(t, "C33")
	n := r.N(1600, 32000)
	r.Each(t, n, 0, nil, func(t *testing.T, c *rt.Case) {
		rng := c.Rand()
		K := []time.Duration{2 * time.Second, 5 * time.Second, 60 * time.Second, 2 * time.Second, 5 * time.Second, 60 * time.Second, 500 * time.Millisecond}[rng.Intn(7)]
		RD := []time.Duration{time.Second, 10 * time.Second}[rng.Intn(2)]
		pol := c33policy{kind: "instant"}
		switch rng.Intn(4) {
		case 1:
			pol = c33policy{kind: "delay", delay: []time.Duration{RD / 2, RD - time.Millisecond, RD + RD/2, 500 * time.Millisecond}[rng.Intn(4)]}
		case 2:
			pol = c33policy{kind: "drop-first"}
		}
		if rng.Intn(3) == 0 {
			pol.discDelay = []time.Duration{RD / 2, RD + RD/2}[rng.Intn(2)]
		}
		var steps []c33step
		for k := 1 + rng.Intn(4); k > 0; k-- {
			st := c33step{tick: 1 + rng.Intn(3)}
			deltas := []time.Duration{-time.Millisecond, 0, time.Millisecond, RD / 2, RD, RD + time.Millisecond, K / 2, pol.delay / 2, pol.delay}
			st.delta = deltas[rng.Intn(len(deltas))]
			st.op = []string{"sleep", "sleep", "sleep", "publish", "subscribe", "ping", "disconnect"}[rng.Intn(7)]
			if st.op == "sleep" {
				st.d = []time.Duration{time.Second, K, 3 * K, RD + time.Second}[rng.Intn(4)]
				st.then = []string{"connect", "sleep-again-then-connect"}[rng.Intn(2)]
			}
			steps = append(steps, st)
			if st.op == "disconnect" {
				break
			}
		}
		var ss []string
		for _, s := range steps {
			ss = append(ss, s.String())
		}
		c.Desc = fmt.Sprintf("KeepAlive=%v RetryDelay=%v gateway: %s; %s", K, RD, pol, strings.Join(ss, "; "))
		var evs []world.Ev
		var callErrs []string
		hung := ""
		bubble(t, func() {
			tr := world.NewTrace()
			sg := newSimpleGw()
			normal := sg.handler()
			var mu sync.Mutex
			pendingFirst := false
			g := world.NewGwPeer(tr, 0, func(g *world.GwPeer, p *snref.Pkt, raw []byte) {
				if p != nil && p.Type == snref.DISCONNECT && !p.HasDur && pol.discDelay > 0 {
					g.SendAfter(pol.discDelay, snref.Disconnect())
					return
				}
				if p != nil && p.Type == snref.PINGREQ && len(p.ClientID) == 0 {
					switch pol.kind {
					case "delay":
						g.SendAfter(pol.delay, snref.Pingresp())
						return
					case "drop-first":
						mu.Lock()
						first := !pendingFirst
						pendingFirst = first
						mu.Unlock()
						if first {
							return
						}
					}
				}
				normal(g, p, raw)
			})
			cfg := &client.ClientConfig{ClientID: "cl", RetryDelay: RD, RetryCount: 2, ConnectTimeout: 5 * time.Second, CleanSession: true, KeepAlive: K}
			cl := newClientOn(g.Link.A, cfg)
			cl.Dial("mem")
			a := newAPI(tr, 0)
			call := func(name string, fn func() error) {
				if hung != "" {
					return
				}
				k := a.Go(name, fn)
				for i := 0; ; i++ {
					synctest.Wait()
					if err, ok := a.Result(k); ok {
						if err != nil {
							callErrs = append(callErrs, fmt.Sprintf("%s -> %v", name, err))
						}
						return
					}
					if i > 2000 {
						hung = name
						return
					}
					time.Sleep(100 * time.Millisecond)
				}
			}
			activation := func() time.Duration {
				var t0 time.Duration
				for _, e := range tr.Events() {
					if e.Kind == world.SNOut {
						if p, _ := snref.ParseLoose(e.B); p != nil && p.Type == snref.CONNACK && p.RC == 0 {
							t0 = e.T
						}
					}
				}
				return t0
			}
			call("Connect", cl.Connect)
			cb := func(*client.Client, string, *p1.Publish) {}
			for _, st := range steps {
				target := activation() + time.Duration(st.tick)*K + st.delta
				if d := target - tr.Now(); d > 0 {
					time.Sleep(d)
				}
				switch st.op {
				case "publish":
					call("Publish", func() error { return cl.Publish("ab", []byte("x"), 1, false) })
				case "subscribe":
					call("Subscribe", func() error { return cl.Subscribe("t/x", 1, cb) })
				case "ping":
					call("Ping", cl.Ping)
				case "disconnect":
					call("Disconnect", cl.Disconnect)
				case "sleep":
					call(fmt.Sprintf("Sleep(%v)", st.d), func() error { return cl.Sleep(st.d) })
					if st.then == "sleep-again-then-connect" {
						call(fmt.Sprintf("Sleep(%v)", st.d), func() error { return cl.Sleep(st.d) })
					}
					call("Connect", cl.Connect)
				}
			}
			// two more keep-alive periods in the final state
			time.Sleep(2*K + time.Second)
			synctest.Wait()
			tr.Add(0, world.Note, nil, "teardown")
			done := make(chan struct{})
			go func() { cl.Close(); close(done) }()
			closed := false
			for i := 0; i < 100 && !closed; i++ { // Close() sends DISCONNECT and may wait (RetryCount+1) x RetryDelay for the reply
				synctest.Wait()
				select {
				case <-done:
					closed = true
				default:
					time.Sleep(time.Second)
				}
			}
			g.Close()
			synctest.Wait()
			evs = tr.Events()
			if !closed {
				c.Violation("call-hangs|Close", "Close() did not return within 100 virtual seconds", map[string]interface{}{"case": c.Desc, "trace": world.Strings(evs, 160)})
				c.MarkDone()
				c.R.ExitNow()
			}
		})
		witness := map[string]interface{}{"case": c.Desc, "trace": world.Strings(evs, 160)}
		if hung != "" {
			c.Violation("call-hangs|"+opKind(hung), fmt.Sprintf("%s did not return within 200 virtual seconds (keep-alive exchange in progress?)", hung), witness)
		}
		// (c) a keep-alive exchange never makes an API call fail (the gateway answers every ping within the retry budget)
		for _, e := range callErrs {
			c.Violation("call-failed|"+opKind(e)+"|"+pol.kind, "API call failed although the gateway answered everything within the retry budget: "+e, witness)
		}
		// ---- reference client state from the wire
		type win struct {
			from time.Duration
			to   time.Duration // -1 = open
			why  string
		}
		var quiet []win // windows in which no keep-alive PINGREQ may be sent
		var active []win
		quiet = append(quiet, win{0, -1, "before CONNECT"})
		sleepReq := false
		closeQuiet := func(t time.Duration) {
			if len(quiet) > 0 && quiet[len(quiet)-1].to < 0 {
				quiet[len(quiet)-1].to = t
			}
		}
		closeActive := func(t time.Duration) {
			if len(active) > 0 && active[len(active)-1].to < 0 {
				active[len(active)-1].to = t
			}
		}
		var pings []time.Duration
		var endT time.Duration
		for _, e := range evs {
			if e.Kind == world.Note && e.Note == "teardown" {
				endT = e.T
				break
			}
			p, _ := snref.ParseLoose(e.B)
			if p == nil {
				continue
			}
			switch e.Kind {
			case world.SNIn:
				switch p.Type {
				case snref.CONNECT:
					closeQuiet(e.T)
				case snref.DISCONNECT:
					closeActive(e.T)
					if p.HasDur && p.Duration > 0 {
						sleepReq = true
					} else {
						quiet = append(quiet, win{e.T, -1, "disconnected"})
					}
				case snref.PINGREQ:
					if len(p.ClientID) == 0 {
						pings = append(pings, e.T)
					}
				}
			case world.SNOut:
				switch p.Type {
				case snref.CONNACK:
					if p.RC == 0 {
						closeActive(e.T)
						active = append(active, win{e.T, -1, "active"})
					}
				case snref.DISCONNECT:
					if sleepReq {
						sleepReq = false
						quiet = append(quiet, win{e.T, -1, "asleep"})
					}
				}
			}
		}
		closeQuiet(endT)
		closeActive(endT)
		checked := 0
		// (b) no keep-alive PINGREQ while asleep or disconnected (same-instant ties are not judged)
		for _, w := range quiet {
			checked++
			for _, pt := range pings {
				if pt > w.from && pt < w.to {
					c.Violation("keepalive-ping-while|"+strings.Fields(w.why)[0]+"|"+pol.kind, fmt.Sprintf("keep-alive PINGREQ sent at %v while the client was %s (since %v)", pt, w.why, w.from), witness)
					break
				}
			}
		}
		// (a) while active and pings are answered at once: a PINGREQ at least every KeepAlive
		prompt := pol.kind == "instant" || (pol.kind == "delay" && pol.delay < K) || (pol.kind == "drop-first" && RD < K)
		if prompt && hung == "" {
			for _, w := range active {
				// an explicit Ping() shares its exchange with the keep-alive loop (a tick during it sends
				// nothing of its own), which shifts the pattern: such windows are not judged for spacing
				explicit := false
				for _, e := range evs {
					if e.Kind == world.Call && strings.HasSuffix(e.Note, " Ping") && e.T >= w.from && e.T <= w.to {
						explicit = true
					}
				}
				if explicit {
					continue
				}
				checked++
				last := w.from
				for _, pt := range pings {
					if pt <= w.from || pt >= w.to {
						continue
					}
					if pt-last > K {
						c.Violation("keepalive-gap", fmt.Sprintf("active since %v: no PINGREQ between %v and %v (KeepAlive %v)", w.from, last, pt, K), witness)
					}
					last = pt
				}
				if w.to-last > K {
					c.Violation("keepalive-gap", fmt.Sprintf("active since %v: no PINGREQ between %v and %v (KeepAlive %v)", w.from, last, w.to, K), witness)
				}
			}
		}
		r.Count("keepalive_pings_seen", len(pings))
		r.Count("windows_checked", checked)
		if len(pings) > 0 {
			c.Key("%s", c.Desc)
		}
		if c.I == 9 || c.I == 21 {
			r.Sample(map[string]interface{}{"case": c.Desc, "keepalive_pings_at": fmt.Sprint(pings), "trace_head": world.Strings(evs, 30)})
		}
	})
	r.Finish("real client library with KeepAlive 2/5/60 s or 500 ms (RetryDelay 1/10 s, RetryCount 2) against a scripted gateway in virtual time. The gateway answers keep-alive pings (PINGREQ without client ID) at once, late (RetryDelay/2, just before the retransmission, after it, 0.5 s) or only on retransmission; a plain DISCONNECT at once or RetryDelay/2 or 1.5 RetryDelay late, everything else at once. Programs: 1-4 API calls (Sleep 1 s / KeepAlive / 3 KeepAlive / RetryDelay+1 s followed by Connect or by a second Sleep and Connect; Publish QoS 1; Subscribe; Ping; Disconnect) placed at offsets {-1 ms, 0, +1 ms, RetryDelay/2, RetryDelay, RetryDelay+1 ms, KeepAlive/2, half and whole PINGRESP delay} around the 1st-3rd expected keep-alive tick after the last activation; then two more periods. Oracle from the wire: (a) whenever every keep-alive exchange is over before the next tick (PINGRESP at once, or later than that but within KeepAlive), while active (CONNACK .. the client's DISCONNECT) consecutive PINGREQs are at most KeepAlive apart, incl. the first and the last gap; (b) no PINGREQ without client ID strictly inside an asleep window (gateway's DISCONNECT reply .. next CONNECT) or a disconnected one, retransmissions included; (c) no API call fails or hangs, since every ping is answered within the retry budget. Same-instant ties are not judged.", nil)
}
