package checks

import (
	"bytes"
	"fmt"
	"net"
	"os"
	"os/exec"
	"path/filepath"
	"strconv"
	"strings"
	"sync"
	"syscall"
	"time"

	"verifharness/mqttref"
	"verifharness/snref"
)

// ---------------------------------------------------------------- building the three tools

var (
	cliOnce sync.Once
	cliDir  string
	cliErr  error
)

// cliBins builds bisquitt, bisquitt-pub and bisquitt-sub from the tree under test the way a
// user would (default toolchain, no build tags) and returns the directory holding them.
func cliBins() (string, error) {
	cliOnce.Do(func() {
		out := os.Getenv("VERIF_OUT")
		if out == "" {
			out = os.TempDir()
		}
		cliDir = filepath.Join(out, "bin")
		os.MkdirAll(cliDir, 0o755)
		for _, tool := range []string{"bisquitt", "bisquitt-pub", "bisquitt-sub"} {
			cmd := exec.Command("go", "build", "-o", filepath.Join(cliDir, tool), "./cmd/"+tool)
			cmd.Dir = repoDir()
			cmd.Env = append(os.Environ(), "GOFLAGS=-mod=mod", "GOPROXY=off", "GOSUMDB=off", "GOTOOLCHAIN=local", "CGO_ENABLED=0")
			if b, err := cmd.CombinedOutput(); err != nil {
				cliErr = fmt.Errorf("go build ./cmd/%s: %v\n%s", tool, err, b)
				return
			}
		}
	})
	return cliDir, cliErr
}

// cleanEnv is the environment for a tool run: nothing of the caller's that the tools read.
func cleanEnv(extra ...string) []string {
	env := []string{"PATH=" + os.Getenv("PATH"), "HOME=" + os.Getenv("HOME"), "TMPDIR=" + os.TempDir()}
	return append(env, extra...)
}

type toolRun struct {
	cmd    *exec.Cmd
	out    bytes.Buffer
	done   chan struct{}
	exited bool
	code   int
	mu     sync.Mutex
}

func startTool(bin string, args []string, env []string) (*toolRun, error) {
	tr := &toolRun{done: make(chan struct{})}
	tr.cmd = exec.Command(bin, args...)
	tr.cmd.Env = env
	tr.cmd.Stdout = &tr.out
	tr.cmd.Stderr = &tr.out
	if err := tr.cmd.Start(); err != nil {
		return nil, err
	}
	go func() {
		err := tr.cmd.Wait()
		tr.mu.Lock()
		tr.exited = true
		if err != nil {
			if ee, ok := err.(*exec.ExitError); ok {
				tr.code = ee.ExitCode()
			} else {
				tr.code = -2
			}
		}
		tr.mu.Unlock()
		close(tr.done)
	}()
	return tr, nil
}

// wait waits for the tool to exit; ok=false if it is still running after d.
func (tr *toolRun) wait(d time.Duration) (code int, ok bool) {
	// an exit that has already happened always wins (a select between two ready cases picks at random)
	select {
	case <-tr.done:
		tr.mu.Lock()
		defer tr.mu.Unlock()
		return tr.code, true
	default:
	}
	select {
	case <-tr.done:
		tr.mu.Lock()
		defer tr.mu.Unlock()
		return tr.code, true
	case <-time.After(d):
		return 0, false
	}
}

func (tr *toolRun) stop() {
	select {
	case <-tr.done:
		return
	default:
	}
	tr.cmd.Process.Signal(syscall.SIGTERM)
	select {
	case <-tr.done:
	case <-time.After(2 * time.Second):
		tr.cmd.Process.Kill()
		<-tr.done
	}
}

func (tr *toolRun) output() string {
	s := tr.out.String()
	if len(s) > 1500 {
		s = s[len(s)-1500:]
	}
	return s
}

// ---------------------------------------------------------------- fake MQTT-SN gateway (UDP)

type fakeGw struct {
	pc   net.PacketConn
	mu   sync.Mutex
	got  []*snref.Pkt
	raw  [][]byte
	next uint16
	silent bool
}

func newFakeGw() (*fakeGw, error) {
	pc, err := net.ListenPacket("udp", "127.0.0.1:0")
	if err != nil {
		return nil, err
	}
	g := &fakeGw{pc: pc, next: 100}
	go g.loop()
	return g, nil
}

func (g *fakeGw) port() int { return g.pc.LocalAddr().(*net.UDPAddr).Port }

func (g *fakeGw) loop() {
	buf := make([]byte, 70000)
	for {
		n, addr, err := g.pc.ReadFrom(buf)
		if err != nil {
			return
		}
		raw := append([]byte(nil), buf[:n]...)
		p, _ := snref.ParseLoose(raw)
		g.mu.Lock()
		g.raw = append(g.raw, raw)
		if p != nil {
			g.got = append(g.got, p)
		}
		silent := g.silent
		g.mu.Unlock()
		if p == nil || silent {
			continue
		}
		send := func(r *snref.Pkt) { g.pc.WriteTo(r.Encode(), addr) }
		switch p.Type {
		case snref.CONNECT:
			send(snref.Connack(0))
		case snref.REGISTER:
			g.mu.Lock()
			g.next++
			id := g.next
			g.mu.Unlock()
			send(snref.Regack(id, p.MsgID, 0))
		case snref.SUBSCRIBE:
			tid := uint16(0)
			if p.TIT == 1 {
				tid = p.TopicID
			} else if p.TIT == 0 {
				g.mu.Lock()
				g.next++
				tid = g.next
				g.mu.Unlock()
			}
			send(snref.Suback(tid, p.MsgID, 0, p.QoS))
		case snref.PUBLISH:
			switch p.QoS {
			case 1:
				send(snref.Puback(p.TopicID, p.MsgID, 0))
			case 2:
				send(snref.MsgOnly(snref.PUBREC, p.MsgID))
			}
		case snref.PUBREL:
			send(snref.MsgOnly(snref.PUBCOMP, p.MsgID))
		case snref.PINGREQ:
			send(snref.Pingresp())
		case snref.DISCONNECT:
			send(snref.Disconnect())
		}
	}
}

func (g *fakeGw) packets() []*snref.Pkt {
	g.mu.Lock()
	defer g.mu.Unlock()
	return append([]*snref.Pkt(nil), g.got...)
}

func (g *fakeGw) raws() [][]byte {
	g.mu.Lock()
	defer g.mu.Unlock()
	return append([][]byte(nil), g.raw...)
}

// waitFor waits until a packet satisfying f has arrived.
func (g *fakeGw) waitFor(d time.Duration, f func(p *snref.Pkt) bool) *snref.Pkt {
	deadline := time.Now().Add(d)
	for {
		for _, p := range g.packets() {
			if f(p) {
				return p
			}
		}
		if time.Now().After(deadline) {
			return nil
		}
		time.Sleep(5 * time.Millisecond)
	}
}

func (g *fakeGw) close() { g.pc.Close() }

// ---------------------------------------------------------------- fake MQTT broker (TCP)

type fakeBroker struct {
	ln   net.Listener
	mu   sync.Mutex
	pubs []*mqttref.Pkt
	conn []*mqttref.Pkt // CONNECT packets
}

func newFakeBroker() (*fakeBroker, error) {
	ln, err := net.Listen("tcp", "127.0.0.1:0")
	if err != nil {
		return nil, err
	}
	b := &fakeBroker{ln: ln}
	go func() {
		for {
			cn, err := ln.Accept()
			if err != nil {
				return
			}
			go b.serve(cn)
		}
	}()
	return b, nil
}

func (b *fakeBroker) port() int { return b.ln.Addr().(*net.TCPAddr).Port }

func (b *fakeBroker) serve(cn net.Conn) {
	defer cn.Close()
	var acc []byte
	buf := make([]byte, 65536)
	for {
		n, err := cn.Read(buf)
		if err != nil {
			return
		}
		acc = append(acc, buf[:n]...)
		for {
			p, k, e := mqttref.Next(acc)
			if e != nil {
				break
			}
			acc = acc[k:]
			switch p.Type {
			case mqttref.CONNECT:
				b.mu.Lock()
				b.conn = append(b.conn, p)
				b.mu.Unlock()
				cn.Write(mqttref.EncConnack(false, 0))
			case mqttref.PUBLISH:
				b.mu.Lock()
				b.pubs = append(b.pubs, p)
				b.mu.Unlock()
				if p.QoS == 1 {
					cn.Write(mqttref.EncAck(mqttref.PUBACK, p.MsgID))
				}
			case mqttref.SUBSCRIBE:
				cn.Write(mqttref.EncSuback(p.MsgID, p.QoSs...))
			case mqttref.PINGREQ:
				cn.Write(mqttref.EncPingresp())
			}
		}
	}
}

func (b *fakeBroker) publishWith(payload string) *mqttref.Pkt {
	b.mu.Lock()
	defer b.mu.Unlock()
	for _, p := range b.pubs {
		if string(p.Payload) == payload {
			return p
		}
	}
	return nil
}

func (b *fakeBroker) connects() int {
	b.mu.Lock()
	defer b.mu.Unlock()
	return len(b.conn)
}

func (b *fakeBroker) close() { b.ln.Close() }

var (
	portMu   sync.Mutex
	portNext int
)

// freeUDPPort returns a loopback UDP port for a tool that has to bind it itself. Ports are taken
// from below the range the kernel uses for automatically assigned ports (which the harness's own
// fake gateways and brokers get), starting at a per-process offset, each one only once, so that
// neither another case of this process nor an ephemeral port can take it in the meantime.
func freeUDPPort() (int, error) {
	portMu.Lock()
	defer portMu.Unlock()
	if portNext == 0 {
		portNext = 20000 + (os.Getpid()*37)%9000
	}
	for i := 0; i < 2000; i++ {
		p := portNext
		portNext++
		if portNext >= 32000 {
			portNext = 20000
		}
		pc, err := net.ListenPacket("udp", fmt.Sprintf("127.0.0.1:%d", p))
		if err != nil {
			continue
		}
		pc.Close()
		return p, nil
	}
	return 0, fmt.Errorf("no free loopback UDP port")
}

// ownsUDPPort reports whether the tool's own process holds a UDP socket bound to the port: the socket
// inodes of the port (from /proc/net/udp and udp6) are looked up among the process's file descriptors.
// "Somebody listens on the port" is not enough for a verdict - another check process running at the
// same time may have been given the same port.
func (tr *toolRun) ownsUDPPort(port int) bool {
	inodes := map[string]bool{}
	for _, f := range []string{"/proc/net/udp", "/proc/net/udp6"} {
		b, err := os.ReadFile(f)
		if err != nil {
			continue
		}
		for _, l := range strings.Split(string(b), "\n")[1:] {
			fs := strings.Fields(l)
			if len(fs) < 10 {
				continue
			}
			i := strings.LastIndex(fs[1], ":")
			if i < 0 {
				continue
			}
			if p, err := strconv.ParseInt(fs[1][i+1:], 16, 32); err == nil && int(p) == port {
				inodes[fs[9]] = true
			}
		}
	}
	if len(inodes) == 0 || tr.cmd.Process == nil {
		return false
	}
	dir := fmt.Sprintf("/proc/%d/fd", tr.cmd.Process.Pid)
	ents, err := os.ReadDir(dir)
	if err != nil {
		return false
	}
	for _, e := range ents {
		if l, err := os.Readlink(filepath.Join(dir, e.Name())); err == nil && strings.HasPrefix(l, "socket:[") {
			if inodes[strings.TrimSuffix(strings.TrimPrefix(l, "socket:["), "]")] {
				return true
			}
		}
	}
	return false
}

// udpPortBound reports whether somebody holds the loopback UDP port (we cannot bind it).
func udpPortBound(port int) bool {
	pc, err := net.ListenPacket("udp", fmt.Sprintf("127.0.0.1:%d", port))
	if err != nil {
		return true
	}
	pc.Close()
	return false
}
