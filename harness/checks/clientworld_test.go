package checks

import (
	"fmt"
	"net"
	"sync"
	"time"

	"github.com/energomonitor/bisquitt/client"
	p1 "github.com/energomonitor/bisquitt/packets1"
	"github.com/energomonitor/bisquitt/util"

	"verifharness/memnet"
	"verifharness/world"
)

// newClientOn creates a real client library instance whose Dial returns the given in-memory end.
func newClientOn(end *memnet.End, cfg *client.ClientConfig) *client.Client {
	c := client.NewClient(util.NoOpLogger{}, cfg)
	c.VerifSetDial(func() (net.Conn, error) { return end, nil })
	return c
}

func stdClientCfg(id string) *client.ClientConfig {
	return &client.ClientConfig{ClientID: id, RetryDelay: 10 * time.Second, RetryCount: 2, ConnectTimeout: 5 * time.Second, CleanSession: true}
}

// api records client API calls in the trace and runs them in their own goroutines.
type api struct {
	tr   *world.Trace
	sess int
	mu   sync.Mutex
	open map[int]string
	n    int
	rets map[int]error
	done map[int]bool
}

func newAPI(tr *world.Trace, sess int) *api {
	return &api{tr: tr, sess: sess, open: map[int]string{}, rets: map[int]error{}, done: map[int]bool{}}
}

// Go starts f in its own goroutine and returns the call number.
func (a *api) Go(name string, f func() error) int {
	a.mu.Lock()
	a.n++
	n := a.n
	a.open[n] = name
	a.mu.Unlock()
	a.tr.Add(a.sess, world.Call, nil, fmt.Sprintf("#%d %s", n, name))
	go func() {
		err := f()
		a.mu.Lock()
		delete(a.open, n)
		a.rets[n] = err
		a.done[n] = true
		a.mu.Unlock()
		a.tr.Add(a.sess, world.Ret, nil, fmt.Sprintf("#%d %s -> %v", n, name, err))
	}()
	return n
}

// Open returns the names of calls that have not returned.
func (a *api) Open() []string {
	a.mu.Lock()
	defer a.mu.Unlock()
	var out []string
	for n, s := range a.open {
		out = append(out, fmt.Sprintf("#%d %s", n, s))
	}
	return out
}

// Result returns (err, returned).
func (a *api) Result(n int) (error, bool) {
	a.mu.Lock()
	defer a.mu.Unlock()
	return a.rets[n], a.done[n]
}

// cbRecorder returns a subscription callback that records its invocation, tagged with the subscription's filter.
func cbRecorder(tr *world.Trace, sess int, filter string) client.MessageHandlerFunc {
	return func(c *client.Client, topic string, pkt *p1.Publish) {
		tr.Add(sess, world.CB, append([]byte(nil), pkt.Data...), fmt.Sprintf("filter=%q topic=%q qos=%d", filter, topic, pkt.QOS))
	}
}
