package checks

import (
	"bytes"
	"fmt"
	"math/rand"
	"testing"

	"verifharness/rt"
	"verifharness/snref"
)

// ---------- shared input generators for C20 / C22 ----------

// structuralInputs yields hostile datagrams for one packet type.
func structuralInputs(t byte, rng *rand.Rand, emit func([]byte)) {
	bodyLens := []int{0, 1, 2, 3, 4, 5, 6, 7, 8, 9, 10, 11, 12, 250, 251, 252, 253, 254, 255, 256, 257, 258, 259, 260}
	for _, bl := range bodyLens {
		for variant := 0; variant < 6; variant++ {
			body := make([]byte, bl)
			switch variant {
			case 0: // zeros
			case 1:
				for i := range body {
					body[i] = 0xff
				}
			default:
				rng.Read(body)
			}
			if variant == 3 && bl > 0 {
				body[0] = byte(rng.Intn(4)) // small flags / TIT values
			}
			if variant == 4 && bl > 1 && t == snref.AUTH {
				body[1] = []byte{0, 1, 253, 254, 255, byte(bl - 2), byte(bl - 1), byte(bl)}[rng.Intn(8)]
			}
			// header forms and declared lengths
			short := append([]byte{byte(bl + 2), t}, body...)
			emit(short)
			for _, d := range []int{-1, 1, -2} {
				s2 := append([]byte(nil), short...)
				s2[0] = byte(bl + 2 + d)
				if s2[0] != 1 {
					emit(s2)
				}
			}
			long := snref.FrameLong(t, body)
			emit(long)
			for _, decl := range []int{0, 1, 2, 3, 4, 255, 256, bl + 3, bl + 5, 0xffff} {
				l2 := append([]byte(nil), long...)
				l2[1], l2[2] = byte(decl>>8), byte(decl)
				emit(l2)
			}
			// truncated long header
			emit(long[:2])
			emit(long[:3])
		}
	}
}

// randomValidPkt draws a reference packet with legal field values.
func randomValidPkt(rng *rand.Rand, maxData int) *snref.Pkt {
	t := snref.AllTypes[rng.Intn(len(snref.AllTypes))]
	return randomPktOfType(rng, t, maxData)
}

func randBytes(rng *rand.Rand, n int) []byte {
	b := make([]byte, n)
	rng.Read(b)
	return b
}

func randLen(rng *rand.Rand, min, max int) int {
	// boundary-biased length
	switch rng.Intn(6) {
	case 0:
		return min
	case 1:
		return max
	case 2:
		c := []int{1, 2, 245, 246, 247, 248, 249, 250, 251, 252, 253, 254, 255, 256, 257, 258, 259}
		v := c[rng.Intn(len(c))]
		if v < min {
			v = min
		}
		if v > max {
			v = max
		}
		return v
	case 3:
		if max > 300 {
			return min + rng.Intn(max-min+1)
		}
	}
	hi := max
	if hi > 40 {
		hi = 40
	}
	if hi < min {
		hi = min
	}
	return min + rng.Intn(hi-min+1)
}

func randName(rng *rand.Rand, n int) string {
	const al = "abc/+#xyz01 _\x00\xc3\xa9"
	b := make([]byte, n)
	for i := range b {
		b[i] = al[rng.Intn(len(al))]
	}
	return string(b)
}

func u16(rng *rand.Rand) uint16 {
	switch rng.Intn(5) {
	case 0:
		return []uint16{0, 1, 2, 255, 256, 0x7fff, 0x8000, 0xfffe, 0xffff}[rng.Intn(9)]
	}
	return uint16(rng.Intn(0x10000))
}

func randomPktOfType(rng *rand.Rand, t byte, maxData int) *snref.Pkt {
	p := &snref.Pkt{Type: t}
	switch t {
	case snref.ADVERTISE:
		p.GwID, p.Duration = byte(rng.Intn(256)), u16(rng)
	case snref.SEARCHGW:
		p.Radius = byte(rng.Intn(256))
	case snref.GWINFO:
		p.GwID, p.Data = byte(rng.Intn(256)), randBytes(rng, randLen(rng, 0, 300))
	case snref.AUTH:
		p.Reason = byte(rng.Intn(256))
		p.Name = randName(rng, randLen(rng, 0, 255))
		p.Data = randBytes(rng, randLen(rng, 0, maxData))
	case snref.CONNECT:
		p.ProtoID = 1
		p.Duration = u16(rng)
		p.Will, p.Clean = rng.Intn(2) == 0, rng.Intn(2) == 0
		if rng.Intn(4) == 0 {
			p.ClientID = randBytes(rng, randLen(rng, 1, maxData))
		} else {
			p.ClientID = randBytes(rng, 1+rng.Intn(23))
		}
	case snref.CONNACK, snref.WILLTOPICRESP, snref.WILLMSGRESP:
		p.RC = byte(rng.Intn(256))
	case snref.WILLTOPIC, snref.WILLTOPICUPD:
		p.Name = randName(rng, randLen(rng, 0, maxData))
		if p.Name != "" {
			p.QoS, p.Retain = uint8(rng.Intn(4)), rng.Intn(2) == 0
		}
	case snref.WILLMSG, snref.WILLMSGUPD:
		p.Data = randBytes(rng, randLen(rng, 0, maxData))
	case snref.REGISTER:
		p.TopicID, p.MsgID = u16(rng), u16(rng)
		p.Name = randName(rng, randLen(rng, 1, maxData))
	case snref.REGACK, snref.PUBACK:
		p.TopicID, p.MsgID, p.RC = u16(rng), u16(rng), byte(rng.Intn(256))
	case snref.PUBLISH:
		p.DUP, p.QoS, p.Retain, p.TIT = rng.Intn(2) == 0, uint8(rng.Intn(4)), rng.Intn(2) == 0, uint8(rng.Intn(3))
		p.TopicID, p.MsgID = u16(rng), u16(rng)
		p.Data = randBytes(rng, randLen(rng, 0, maxData))
	case snref.PUBCOMP, snref.PUBREC, snref.PUBREL, snref.UNSUBACK:
		p.MsgID = u16(rng)
	case snref.SUBSCRIBE, snref.UNSUBSCRIBE:
		p.MsgID = u16(rng)
		p.TIT = uint8(rng.Intn(3))
		if t == snref.SUBSCRIBE {
			p.DUP, p.QoS = rng.Intn(2) == 0, uint8(rng.Intn(4))
		}
		if p.TIT == 0 {
			p.HasName = true
			p.Name = randName(rng, randLen(rng, 1, maxData))
		} else {
			p.TopicID = u16(rng)
		}
	case snref.SUBACK:
		p.QoS, p.TopicID, p.MsgID, p.RC = uint8(rng.Intn(4)), u16(rng), u16(rng), byte(rng.Intn(256))
	case snref.PINGREQ:
		p.ClientID = randBytes(rng, randLen(rng, 0, 300))
	case snref.DISCONNECT:
		if rng.Intn(2) == 0 {
			p.Duration = u16(rng)
			p.HasDur = p.Duration != 0
		}
	}
	return p
}

// mutate applies a random byte-level mutation.
func mutate(rng *rand.Rand, b []byte) []byte {
	b = append([]byte(nil), b...)
	switch rng.Intn(7) {
	case 0:
		if len(b) > 0 {
			b = b[:rng.Intn(len(b))]
		}
	case 1:
		b = append(b, randBytes(rng, 1+rng.Intn(4))...)
	case 2:
		if len(b) > 0 {
			b[rng.Intn(len(b))] ^= byte(1 << uint(rng.Intn(8)))
		}
	case 3:
		if len(b) > 0 {
			b[0] = byte(rng.Intn(256))
		}
	case 4:
		if len(b) > 0 {
			b[0] = 1
		}
	case 5:
		// re-frame in the long form
		if p, err := snref.ParseLoose(b); err == nil {
			b = snref.FrameLong(p.Type, p.Body)
		}
	case 6:
		if len(b) > 2 {
			i := rng.Intn(len(b))
			b[i] = byte(rng.Intn(256))
		}
	}
	return b
}

const (
	modeCrash = iota // C20
	modeFaith        // C22
)

// codecCases enumerates the input space shared by C20 and C22:
// cases 0..255   exhaustive: every byte string of length <= 3 with that first byte (case 0 adds the empty string)
// cases 256..283 structural: one per packet type, + 4 unknown types
// cases 288..    random valid packets and their mutations
func codecSweep(t *testing.T, r *rt.Run, mode int) {
	nRandomCases := r.N(64, 2048)
	perRandom := 2000
	nStruct := len(snref.AllTypes) + 4
	total := 256 + nStruct + nRandomCases
	r.Each(t, total, 0, func(i int) string {
		switch {
		case i < 256:
			return fmt.Sprintf("exhaustive len<=3, first byte %#02x", i)
		case i < 256+nStruct:
			return fmt.Sprintf("structural #%d", i-256)
		default:
			return fmt.Sprintf("random+mutation batch #%d", i-256-nStruct)
		}
	}, func(t *testing.T, c *rt.Case) {
		rng := c.Rand()
		evals, decoded, nontriv := 0, 0, 0
		check := func(in []byte) {
			evals++
			pkt, err, pi := safeDecode(in)
			if len(in) >= 2 {
				nontriv++
			}
			if pi != nil {
				if mode == modeCrash {
					c.Violation("panic|"+pi.Site+"|"+normPanic(pi.Msg),
						fmt.Sprintf("ReadPacket panics on datagram %s: %s", rt.Hex(cut(in, 64)), pi.Msg),
						map[string]interface{}{"input_hex": rt.Hex(in), "panic": pi.Msg, "site": pi.Site, "stack": cutS(pi.Stack, 3000)})
				}
				return
			}
			if err != nil || pkt == nil {
				return
			}
			decoded++
			if mode == modeCrash {
				// String() and Pack() of whatever was decoded must not panic either (the
				// gateway logs and re-sends decoded packets).
				if _, _, pi := safePack(pkt); pi != nil {
					c.Violation("panic|"+pi.Site+"|"+normPanic(pi.Msg), fmt.Sprintf("Pack of decoded %s panics: %s", rt.Hex(cut(in, 64)), pi.Msg),
						map[string]interface{}{"input_hex": rt.Hex(in), "panic": pi.Msg})
				}
				return
			}
			faithful(c, in, pkt)
		}
		switch {
		case c.I < 256:
			b0 := byte(c.I)
			if c.I == 0 {
				check([]byte{})
			}
			check([]byte{b0})
			buf2 := []byte{b0, 0}
			buf3 := []byte{b0, 0, 0}
			for x := 0; x < 256; x++ {
				buf2[1] = byte(x)
				check(buf2)
				buf3[1] = byte(x)
				for y := 0; y < 256; y++ {
					buf3[2] = byte(y)
					check(buf3)
				}
			}
			c.Distinct(nontriv)
		case c.I < 256+nStruct:
			k := c.I - 256
			var ty byte
			if k < len(snref.AllTypes) {
				ty = snref.AllTypes[k]
			} else {
				ty = []byte{0x11, 0x19, 0x1e, 0xfe}[k-len(snref.AllTypes)]
			}
			seen := map[string]bool{}
			structuralInputs(ty, rng, func(b []byte) {
				if !seen[string(b)] {
					seen[string(b)] = true
					check(b)
				}
			})
			c.Distinct(len(seen))
		default:
			seen := map[string]bool{}
			for k := 0; k < perRandom; k++ {
				p := randomValidPkt(rng, 7168)
				b := p.Encode()
				if rng.Intn(8) == 0 {
					b = snref.FrameLong(p.Type, p.EncodeBody())
				}
				for m := rng.Intn(3); m > 0; m-- {
					b = mutate(rng, b)
				}
				if len(b) > 8192 {
					b = b[:8192]
				}
				if !seen[string(b)] {
					seen[string(b)] = true
					check(b)
				}
			}
			c.Distinct(len(seen))
			if c.I == 256+nStruct {
				p := randomValidPkt(rng, 100)
				r.Sample(map[string]interface{}{"kind": "random valid packet (before mutation)", "pkt": p.String(), "hex": rt.Hex(cut(p.Encode(), 80))})
			}
		}
		c.Evals(evals)
		r.Count("inputs", evals)
		r.Count("decoded_ok", decoded)
		if c.I == 0x0c {
			r.Sample(map[string]interface{}{"kind": "exhaustive slice", "first_byte": "0x0c", "inputs": evals, "decoded_ok": decoded})
		}
	})
}

func cut(b []byte, n int) []byte {
	if len(b) > n {
		return b[:n]
	}
	return b
}
func cutS(s string, n int) string {
	if len(s) > n {
		return s[:n]
	}
	return s
}

// faithful is the C22 oracle for one accepted datagram.
func faithful(c *rt.Case, in []byte, pkt interface{ Pack() ([]byte, error) }) {
	ref, rerr := snref.ParseLoose(in)
	form := "short"
	if len(in) > 0 && in[0] == 1 {
		form = "long"
		if ref != nil && ref.DeclLen <= 255 {
			form = "long-announcing<=255"
		}
	}
	if ref == nil {
		c.Violation("accept-unframeable|"+form, "decoder accepts a datagram without a complete header: "+rt.Hex(cut(in, 32)), map[string]interface{}{"input_hex": rt.Hex(in)})
		return
	}
	got := fromBisquitt(pkt.(interface {
		Pack() ([]byte, error)
		Unpack([]byte) error
		String() string
	}))
	tn := snref.TypeName(ref.Type)
	if got == nil {
		c.Violation("unknown-struct|"+tn, "decoder returned an unknown packet struct", map[string]interface{}{"input_hex": rt.Hex(in)})
		return
	}
	if got.Type != ref.Type {
		c.Violation("type|"+tn+"|"+form, fmt.Sprintf("decoded type %s, datagram says %s", snref.TypeName(got.Type), tn), map[string]interface{}{"input_hex": rt.Hex(in)})
		return
	}
	if rerr == nil {
		if a, b := canon(ref), canon(got); !bytes.Equal(a, b) {
			c.Violation("fields|"+tn+"|"+form,
				fmt.Sprintf("decoded fields differ from the bytes after the actual header: datagram %s, reference %s, decoded %s", rt.Hex(cut(in, 48)), ref, got),
				map[string]interface{}{"input_hex": rt.Hex(in), "reference": ref.String(), "decoded": got.String()})
			return
		}
	} else {
		c.R.Count("accepted_but_reference_rejects_body", 1)
	}
	// re-encode
	out, err := pkt.Pack()
	if err != nil {
		return
	}
	ref2, err2 := snref.ParseLoose(out)
	if err2 != nil || ref2 == nil {
		if rerr == nil {
			c.Violation("repack-unparseable|"+tn+"|"+form, "re-encoded packet does not parse: "+rt.Hex(cut(out, 48)), map[string]interface{}{"input_hex": rt.Hex(in), "repacked_hex": rt.Hex(out)})
		}
		return
	}
	if rerr == nil {
		if a, b := canon(ref), canon(ref2); !bytes.Equal(a, b) {
			c.Violation("repack|"+tn+"|"+form,
				fmt.Sprintf("re-encoding does not reproduce type and body: datagram %s -> %s", rt.Hex(cut(in, 48)), rt.Hex(cut(out, 48))),
				map[string]interface{}{"input_hex": rt.Hex(in), "repacked_hex": rt.Hex(out), "reference": ref.String(), "repacked": ref2.String()})
		}
	} else {
		// reference could not lay out the body; compare raw bodies modulo ignored flag bits.
		a, b := append([]byte(nil), ref.Body...), append([]byte(nil), ref2.Body...)
		if m := snref.FlagMask(ref.Type); len(a) > 0 && len(b) > 0 && (ref.Type == snref.CONNECT || ref.Type == snref.PUBLISH || ref.Type == snref.SUBSCRIBE || ref.Type == snref.SUBACK || ref.Type == snref.UNSUBSCRIBE || ref.Type == snref.WILLTOPIC || ref.Type == snref.WILLTOPICUPD) {
			a[0] &= m
			b[0] &= m
		}
		if ref2.Type != ref.Type || !bytes.Equal(a, b) {
			c.Violation("repack-raw|"+tn+"|"+form, fmt.Sprintf("re-encoding does not reproduce the body: %s -> %s", rt.Hex(cut(in, 48)), rt.Hex(cut(out, 48))),
				map[string]interface{}{"input_hex": rt.Hex(in), "repacked_hex": rt.Hex(out)})
		}
	}
}

func TestC20(t *testing.T) {
	r := rt.Start(t, "C20")
	codecSweep(t, r, modeCrash)
	r.Finish("inputs: (a) every byte string of length 0..3, one case per first byte; (b) per packet type (28 + 4 undefined types): body lengths 0..12 and 250..260 x 6 fill patterns x both header forms x 14 declared-length variants; (c) random legal packets (all 28 types, fields up to 7168 bytes) with 0-2 byte-level mutations. An input is non-trivial when it has at least 2 bytes (reaches the header decoder); distinct = distinct byte strings, counted per case with a set (cases are disjoint by construction or salted PRNG).", nil)
}

func TestC22(t *testing.T) {
	r := rt.Start(t, "C22")
	codecSweep(t, r, modeFaith)
	r.Finish("same input space as C20; the oracle runs on every input the decoder accepts (counter decoded_ok): reference parse by spec layout with the header form taken from byte 0, canonical body (ignored flag bits masked, zero DISCONNECT duration dropped) must equal the decoded fields and the re-encoded packet.", nil)
}
