package checks

import (
	"fmt"
	"math/rand"
	"net"
	"path/filepath"
	"strings"
	"testing"
	"time"

	"verifharness/snref"

	"verifharness/monitors"
	"verifharness/rt"
	"verifharness/world"
)

const connectRule = "workloads: connect-exhaustive = every sequence of 1..3 client packets over a 26-symbol alphabet (4 CONNECT variants, 5 AUTH variants, 3 WILLTOPIC, 2 WILLMSG, REGISTER, 5 PUBLISH/SUBSCRIBE variants, 2 PINGREQ, plain, sleep and explicit-zero-duration DISCONNECT, PUBACK) x authentication on/off against an accepting broker; connect-random = perturbed valid connect flows (drop/duplicate/swap/insert over 51 symbols covering all 28 packet types) with broker CONNACK codes 0-5/9/silence, 4 gateway credential variants and 0/1 s/4.9 s gaps. Each sequence is sent in lock-step (quiescence between packets) to the real session handler in a virtual-time bubble; a case is non-trivial when the monitor's antecedent fired at least once; distinct by script."

func TestC07(t *testing.T) {
	r := rt.Start(t, "C07")
	runWorkloads(t, r, []Workload{wlConnectExhaustive, wlConnectRandom}, func(g *GWRun) ([]monitors.V, int) {
		return monitors.C07(g.Items, g.Cfg.Auth)
	})
	r.Finish(connectRule+" Oracle C07: CONNACK(accepted) only after a broker CONNACK(0) in the session; before it only CONNECTs (and, auth off, QoS -1 short/predefined publishes) reach the broker; any other client packet before it ends the session.", nil)
}

// wlAuthProcess: the bisquitt binary itself (flag parsing, ListenAndServe, real sockets): which
// credentials reach a fake TCP broker for the combinations of --auth, --mqtt-user/--mqtt-password
// and a client that does or does not send AUTH.
var wlAuthProcess = Workload{
	Name: "bisquitt-process",
	N:    func(r *rt.Run) int { return 12 },
	Run: func(t *testing.T, c *rt.Case, i int, rng *rand.Rand) *GWRun {
		auth := i%2 == 1
		cred := (i / 2) % 3 // 0 none, 1 user, 2 user+password
		sendAuth := i/6 == 1
		g := &GWRun{NSess: 1, Cfg: world.GWConfig{Auth: auth}}
		g.Desc = fmt.Sprintf("bisquitt process auth=%v gateway-credentials=%d client-sends-AUTH=%v", auth, cred, sendAuth)
		bins, err := cliBins()
		if err != nil {
			return nil
		}
		br, err := newFakeBroker()
		if err != nil {
			return nil
		}
		defer br.close()
		port, err := freeUDPPort()
		if err != nil {
			return nil
		}
		args := []string{"--host", "127.0.0.1", "--port", fmt.Sprint(port), "--mqtt-host", "127.0.0.1", "--mqtt-port", fmt.Sprint(br.port())}
		if auth {
			args = append(args, "--auth", "--insecure")
		}
		if cred >= 1 {
			args = append(args, "--mqtt-user", "gwuser")
			g.Cfg.User = strp("gwuser")
		}
		if cred == 2 {
			args = append(args, "--mqtt-password", "gwpass")
			g.Cfg.Password = []byte("gwpass")
		}
		g.Script = append(g.Script, "bisquitt "+strings.Join(args, " "))
		tool, err := startTool(filepath.Join(bins, "bisquitt"), args, cleanEnv())
		if err != nil {
			return nil
		}
		defer tool.stop()
		up := false
		for k := 0; k < 300 && !up; k++ {
			if _, ex := tool.wait(0); ex {
				return nil
			}
			up = tool.ownsUDPPort(port)
			time.Sleep(10 * time.Millisecond)
		}
		if !up {
			return nil
		}
		conn, err := net.Dial("udp", fmt.Sprintf("127.0.0.1:%d", port))
		if err != nil {
			return nil
		}
		defer conn.Close()
		// the trace is rebuilt from what the two real sockets carried
		tr := world.NewTrace()
		send := func(p *snref.Pkt) {
			b := p.Encode()
			tr.Add(0, world.SNIn, b, "")
			conn.Write(b)
			g.Script = append(g.Script, "client sends "+p.String())
		}
		send(snref.Connect("cl", 60, false, true))
		if sendAuth {
			send(snref.AuthPlain("alice", []byte("s3cret")))
		}
		buf := make([]byte, 2048)
		conn.SetReadDeadline(time.Now().Add(1500 * time.Millisecond))
		if n, err := conn.Read(buf); err == nil {
			tr.Add(0, world.SNOut, append([]byte(nil), buf[:n]...), "")
		}
		time.Sleep(100 * time.Millisecond)
		br.mu.Lock()
		for _, p := range br.conn {
			tr.Add(0, world.MQOut, p.Raw, "")
		}
		br.mu.Unlock()
		g.Evs = tr.Events()
		// order: the MQTT CONNECT was caused by the datagrams before it; put MQOut before the reply
		g.Items, g.RestOut = g.Session(0)
		return g
	},
}

func TestC08(t *testing.T) {
	r := rt.Start(t, "C08")
	runWorkloads(t, r, []Workload{wlConnectExhaustive, wlConnectRandom, wlAuthProcess}, func(g *GWRun) ([]monitors.V, int) {
		return monitors.C08(g.Items, g.Cfg.Auth, g.Cfg.User, g.Cfg.Password)
	})
	r.Finish(connectRule+" Workload bisquitt-process: the built bisquitt binary on loopback with --auth on/off x no / user / user+password broker credentials x a client that sends CONNECT with or without AUTH(alice): the CONNECT packets a fake TCP broker receives are judged by the same oracle (plumbing of the options through main and ListenAndServe). Oracle C08: per connect exchange, credentials on every MQTT CONNECT (from the latest well-formed PLAIN AUTH when auth is on, the gateway's own otherwise), unknown AUTH method answered 'not supported' with no CONNECT afterwards.", nil)
}

func TestC09(t *testing.T) {
	r := rt.Start(t, "C09")
	runWorkloads(t, r, []Workload{wlConnectExhaustive, wlConnectRandom}, func(g *GWRun) ([]monitors.V, int) {
		return monitors.C09(g.Items, g.Cfg.Auth)
	})
	r.Finish(connectRule+" Oracle C09: WILL*REQ ordering, MQTT CONNECT only after solicited WILLTOPIC+WILLMSG and carrying exactly those will fields, at most one MQTT CONNECT per exchange, CONNACK code mapping, zero keep-alive refused.", nil)
}

var _ = world.SNIn
