package checks

import (
	"testing"

	"verifharness/monitors"
	"verifharness/rt"
	"verifharness/world"
)

const connectRule = "workloads: connect-exhaustive = every sequence of 1..3 client packets over a 25-symbol alphabet (4 CONNECT variants, 5 AUTH variants, 3 WILLTOPIC, 2 WILLMSG, REGISTER, 5 PUBLISH/SUBSCRIBE variants, 2 PINGREQ, plain and sleep DISCONNECT, PUBACK) x authentication on/off against an accepting broker; connect-random = perturbed valid connect flows (drop/duplicate/swap/insert over 51 symbols covering all 28 packet types) with broker CONNACK codes 0-5/9/silence, 4 gateway credential variants and 0/1 s/4.9 s gaps. Each sequence is sent in lock-step (quiescence between packets) to the real session handler in a virtual-time bubble; a case is non-trivial when the monitor's antecedent fired at least once; distinct by script."

func TestC07(t *testing.T) {
	r := rt.Start(t, "C07")
	runWorkloads(t, r, []Workload{wlConnectExhaustive, wlConnectRandom}, func(g *GWRun) ([]monitors.V, int) {
		return monitors.C07(g.Items, g.Cfg.Auth)
	})
	r.Finish(connectRule+" Oracle C07: CONNACK(accepted) only after a broker CONNACK(0) in the session; before it only CONNECTs (and, auth off, QoS -1 short/predefined publishes) reach the broker; any other client packet before it ends the session.", nil)
}

func TestC08(t *testing.T) {
	r := rt.Start(t, "C08")
	runWorkloads(t, r, []Workload{wlConnectExhaustive, wlConnectRandom}, func(g *GWRun) ([]monitors.V, int) {
		return monitors.C08(g.Items, g.Cfg.Auth, g.Cfg.User, g.Cfg.Password)
	})
	r.Finish(connectRule+" Oracle C08: per connect exchange, credentials on every MQTT CONNECT (from the latest well-formed PLAIN AUTH when auth is on, the gateway's own otherwise), unknown AUTH method answered 'not supported' with no CONNECT afterwards.", nil)
}

func TestC09(t *testing.T) {
	r := rt.Start(t, "C09")
	runWorkloads(t, r, []Workload{wlConnectExhaustive, wlConnectRandom}, func(g *GWRun) ([]monitors.V, int) {
		return monitors.C09(g.Items, g.Cfg.Auth)
	})
	r.Finish(connectRule+" Oracle C09: WILL*REQ ordering, MQTT CONNECT only after solicited WILLTOPIC+WILLMSG and carrying exactly those will fields, at most one MQTT CONNECT per exchange, CONNACK code mapping, zero keep-alive refused.", nil)
}

var _ = world.SNIn
