package checks

import (
	"testing/synctest"
	"time"

	"github.com/energomonitor/bisquitt/client"

	"verifharness/world"
)

// fullWorld is the real client library talking to the real gateway session
// handler, which talks to the simulated broker - all in one bubble.
type fullWorld struct {
	W   *world.World
	B   *world.Broker
	S   *world.Session
	Cl  *client.Client
	API *api
}

// newFullWorld must be called inside a bubble. The client has dialled but not connected.
func newFullWorld(gw world.GWConfig, bc world.BrokerCfg, cc *client.ClientConfig) *fullWorld {
	w := world.New(gw)
	b := world.NewBroker(bc)
	s := w.NewSessionForClient(b.Handler())
	if bc.EnforceKA {
		b.Attach(s)
	}
	cl := newClientOn(s.SN.A, cc)
	cl.Dial("mem")
	return &fullWorld{W: w, B: b, S: s, Cl: cl, API: newAPI(w.Tr, 0)}
}

// Close shuts the client and the world down and returns the trace.
func (f *fullWorld) Close() []world.Ev {
	f.W.Tr.Add(0, world.Note, nil, "teardown")
	done := make(chan struct{})
	go func() { f.Cl.Close(); close(done) }()
	time.Sleep(5 * time.Second)
	f.W.Finish()
	synctest.Wait()
	select {
	case <-done:
	default:
		f.W.Tr.Add(0, world.Note, nil, "client Close() has not returned")
	}
	evs := f.W.Tr.Events()
	f.W.WaitHarness()
	return evs
}
