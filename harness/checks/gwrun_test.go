package checks

import (
	"fmt"
	"math/rand"
	"strings"
	"testing"
	"testing/synctest"
	"time"

	"github.com/energomonitor/bisquitt/topics"

	"verifharness/monitors"
	"verifharness/mqttref"
	"verifharness/rt"
	"verifharness/snref"
	"verifharness/world"
)

// GWRun is the record of one world run around the real gateway session handler.
type GWRun struct {
	Cfg     world.GWConfig
	BCfg    world.BrokerCfg
	Desc    string   // compact script description (distinctness key)
	Script  []string // human-readable steps
	Evs     []world.Ev
	Items   []monitors.Item // session 0
	RestOut []byte
	NSess   int
	Extra   map[string]interface{}
}

func (g *GWRun) Session(i int) ([]monitors.Item, []byte) {
	it, ro, _ := monitors.Decode(g.Evs, i)
	return it, ro
}

func (g *GWRun) witness(max int) map[string]interface{} {
	return map[string]interface{}{"script": g.Script, "config": cfgDesc(g.Cfg), "trace": world.Strings(g.Evs, max)}
}

func cfgDesc(c world.GWConfig) string {
	u := "<nil>"
	if c.User != nil {
		u = *c.User
	}
	pw := "<nil>"
	if c.Password != nil {
		pw = string(c.Password)
	}
	return fmt.Sprintf("auth=%v user=%s password=%s retry=%v x%d predefined=%s", c.Auth, u, pw, c.RetryDelay, c.RetryCount, cfgString(c.Predefined))
}

// Workload produces one GWRun per case index.
type Workload struct {
	Name string
	N    func(r *rt.Run) int
	Run  func(t *testing.T, c *rt.Case, i int, rng *rand.Rand) *GWRun
}

// leakIsViolation is set by the check whose property forbids goroutine leaks (C13, C28).
var leakIsViolation = ""

// handleLeaks must be called inside the bubble at quiescence after teardown.
// Goroutines still inside bisquitt code keep the bubble from finishing, so
// the finding is journaled and the process exits (the driver restarts it).
func handleLeaks(c *rt.Case, g *GWRun) {
	if leakIsViolation == "" {
		// Not this check's subject: a leak would make the bubble panic at its
		// end, which the driver reports as a crash of this case.
		return
	}
	leaks := bubbleLeaks()
	if len(leaks) == 0 {
		return
	}
	if leakIsViolation != "" {
		c.Violation("goroutine-leak|"+leakSite(leaks[0]), fmt.Sprintf("%d goroutine(s) of the session outlive it; first blocked in %s", len(leaks), leakSite(leaks[0])),
			map[string]interface{}{"stacks": leaks, "witness": g.witness(80)})
	} else {
		c.Inconclusive("goroutines of the session outlive it (judged by C13): " + leakSite(leaks[0]))
	}
	c.MarkDone()
	c.R.ExitNow()
}

func leakSite(stack string) string {
	for _, l := range strings.Split(stack, "\n") {
		l = strings.TrimSpace(l)
		if strings.HasPrefix(l, "github.com/energomonitor/bisquitt/") {
			if i := strings.LastIndex(l, "("); i > 0 {
				l = l[:i]
			}
			return strings.TrimPrefix(l, "github.com/energomonitor/bisquitt/")
		}
	}
	return "?"
}

// bubble runs f inside a synctest bubble.
func bubble(t *testing.T, f func()) {
	synctest.Test(t, func(t *testing.T) { f() })
}

// runWorkloads is the generic check body: every case of every workload is
// run and handed to judge, which returns the violations of the property and
// how many antecedents it checked (0 = trivial case).
func runWorkloads(t *testing.T, r *rt.Run, wls []Workload, judge func(g *GWRun) ([]monitors.V, int)) {
	var starts []int
	total := 0
	for _, w := range wls {
		starts = append(starts, total)
		total += w.N(r)
	}
	locate := func(i int) (Workload, int) {
		k := len(wls) - 1
		for k > 0 && starts[k] > i {
			k--
		}
		return wls[k], i - starts[k]
	}
	r.Each(t, total, 0, func(i int) string {
		w, k := locate(i)
		return fmt.Sprintf("%s#%d", w.Name, k)
	}, func(t *testing.T, c *rt.Case) {
		w, k := locate(c.I)
		g := w.Run(t, c, k, c.Rand())
		if g == nil {
			c.Inconclusive("workload produced no run")
			return
		}
		vs, checked := judge(g)
		observeShapes(r, g)
		r.Count("antecedents_checked", checked)
		r.Count("events", len(g.Evs))
		r.Count("wl:"+w.Name, 1)
		for _, v := range monitors.Dedup(vs) {
			c.Violation(v.Sig, v.What, map[string]interface{}{"workload": w.Name, "case": k, "anchor_seq": v.Seq, "witness": g.witness(120)})
		}
		if checked > 0 {
			c.Key("%s|%s", w.Name, g.Desc)
		}
		if k == 7 || (k == 0 && w.Name != wls[0].Name) {
			r.Sample(map[string]interface{}{"workload": w.Name, "script": g.Script, "trace_head": world.Strings(g.Evs, 14), "antecedents_checked": checked})
		}
		if r.Only >= 0 {
			// replay of one case: the whole trace goes into the journal
			r.Sample(map[string]interface{}{"replayed_case": g.Desc, "script": g.Script, "trace": world.Strings(g.Evs, 400), "antecedents_checked": checked})
		}
	})
}

// ---------------------------------------------------------------- connect-sequence workload

type sym struct {
	name string
	mk   func() *snref.Pkt
}

var preSyms = []sym{
	{"CONNECT", func() *snref.Pkt { return snref.Connect("cl", 60, false, true) }},
	{"CONNECT(will)", func() *snref.Pkt { return snref.Connect("cl", 60, true, true) }},
	{"CONNECT(ka=0)", func() *snref.Pkt { return snref.Connect("cl", 0, false, false) }},
	{"CONNECT(will,ka=65535)", func() *snref.Pkt { return snref.Connect("c2", 65535, true, false) }},
	{"CONNECT(proto=2)", func() *snref.Pkt { p := snref.Connect("cl", 60, false, true); p.ProtoID = 2; return p }},
	{"AUTH(u1:p1)", func() *snref.Pkt { return snref.AuthPlain("u1", []byte("p1")) }},
	{"AUTH(u2:p2)", func() *snref.Pkt { return snref.AuthPlain("u2", []byte("p2")) }},
	{"AUTH(malformed)", func() *snref.Pkt { return &snref.Pkt{Type: snref.AUTH, Name: "PLAIN", Data: []byte("\x00only-two")} }},
	{"AUTH(4-parts)", func() *snref.Pkt { return &snref.Pkt{Type: snref.AUTH, Name: "PLAIN", Data: []byte("\x00u1\x00p\x001")} }},
	{"AUTH(unknown-method)", func() *snref.Pkt { return &snref.Pkt{Type: snref.AUTH, Name: "SCRAM", Data: []byte("\x00u\x00p")} }},
	{"WILLTOPIC(w/t,q1,r)", func() *snref.Pkt { return snref.WillTopic("w/t", 1, true) }},
	{"WILLTOPIC(empty)", func() *snref.Pkt { return &snref.Pkt{Type: snref.WILLTOPIC} }},
	{"WILLTOPIC(q3)", func() *snref.Pkt { return snref.WillTopic("w/3", 3, false) }},
	{"WILLMSG(bye)", func() *snref.Pkt { return snref.WillMsg([]byte("bye")) }},
	{"WILLMSG(empty)", func() *snref.Pkt { return snref.WillMsg(nil) }},
	{"REGISTER", func() *snref.Pkt { return snref.Register(0, 11, "t/reg") }},
	{"PUBLISH(q0,reg1)", func() *snref.Pkt { return snref.Publish(0, 1, 0, 0, false, false, []byte("P-q0-reg")) }},
	{"PUBLISH(q-1,short)", func() *snref.Pkt { return snref.Publish(2, snref.ShortID("ab"), 0, 3, false, false, []byte("P-m1-short")) }},
	{"PUBLISH(q-1,predef1)", func() *snref.Pkt { return snref.Publish(1, 1, 0, 3, false, false, []byte("P-m1-pre")) }},
	{"PUBLISH(q1,short)", func() *snref.Pkt { return snref.Publish(2, snref.ShortID("ab"), 12, 1, false, false, []byte("P-q1-short")) }},
	{"SUBSCRIBE", func() *snref.Pkt { return snref.SubscribeName(13, 1, "t/sub") }},
	{"PINGREQ", func() *snref.Pkt { return snref.Pingreq("") }},
	{"PINGREQ(cl)", func() *snref.Pkt { return snref.Pingreq("cl") }},
	{"DISCONNECT", func() *snref.Pkt { return snref.Disconnect() }},
	{"DISCONNECT(30)", func() *snref.Pkt { return snref.Sleep(30) }},
	{"DISCONNECT(explicit 0)", func() *snref.Pkt { return &snref.Pkt{Type: snref.DISCONNECT, HasDur: true, Duration: 0} }},
	{"PUBACK", func() *snref.Pkt { return snref.Puback(1, 1, 0) }},
}

var extraSyms = []sym{
	// long bodies: a later datagram of the exchange is longer than an earlier one (receive-buffer reuse shows)
	{"WILLTOPIC(long)", func() *snref.Pkt { return snref.WillTopic("will/"+strings.Repeat("topic/", 10)+"end", 1, false) }},
	{"WILLMSG(long)", func() *snref.Pkt { return snref.WillMsg([]byte(strings.Repeat("last words ", 20))) }},
	{"AUTH(long-pw)", func() *snref.Pkt {
		return &snref.Pkt{Type: snref.AUTH, Name: "PLAIN", Data: []byte("\x00user-three\x00" + strings.Repeat("pw", 20))}
	}},
	{"AUTH(empty-user-pw)", func() *snref.Pkt { return &snref.Pkt{Type: snref.AUTH, Name: "PLAIN", Data: []byte("\x00\x00")} }},
	{"AUTH(lowercase-method)", func() *snref.Pkt { return &snref.Pkt{Type: snref.AUTH, Name: "plain", Data: []byte("\x00u\x00p")} }},
	{"WILLTOPIC(q2)", func() *snref.Pkt { return snref.WillTopic("w/2", 2, false) }},
	{"WILLTOPIC(q0,r)", func() *snref.Pkt { return snref.WillTopic("w/0", 0, true) }},
	{"UNSUBSCRIBE", func() *snref.Pkt { return snref.UnsubscribeName(14, "t/sub") }},
	{"PUBREL", func() *snref.Pkt { return snref.MsgOnly(snref.PUBREL, 15) }},
	{"REGACK", func() *snref.Pkt { return snref.Regack(1, 1, 0) }},
	{"PUBREC", func() *snref.Pkt { return snref.MsgOnly(snref.PUBREC, 1) }},
	{"PUBCOMP", func() *snref.Pkt { return snref.MsgOnly(snref.PUBCOMP, 1) }},
	{"WILLTOPICUPD", func() *snref.Pkt { return &snref.Pkt{Type: snref.WILLTOPICUPD, Name: "w/u"} }},
	{"WILLMSGUPD", func() *snref.Pkt { return &snref.Pkt{Type: snref.WILLMSGUPD, Data: []byte("u")} }},
	{"SEARCHGW", func() *snref.Pkt { return &snref.Pkt{Type: snref.SEARCHGW, Radius: 1} }},
	{"ADVERTISE", func() *snref.Pkt { return &snref.Pkt{Type: snref.ADVERTISE, GwID: 1, Duration: 5} }},
	{"GWINFO", func() *snref.Pkt { return &snref.Pkt{Type: snref.GWINFO, GwID: 1} }},
	{"CONNACK", func() *snref.Pkt { return snref.Connack(0) }},
	{"SUBACK", func() *snref.Pkt { return snref.Suback(1, 13, 0, 0) }},
	{"UNSUBACK", func() *snref.Pkt { return snref.MsgOnly(snref.UNSUBACK, 14) }},
	{"PINGRESP", func() *snref.Pkt { return snref.Pingresp() }},
	{"WILLTOPICREQ", func() *snref.Pkt { return &snref.Pkt{Type: snref.WILLTOPICREQ} }},
	{"WILLMSGREQ", func() *snref.Pkt { return &snref.Pkt{Type: snref.WILLMSGREQ} }},
	{"WILLTOPICRESP", func() *snref.Pkt { return &snref.Pkt{Type: snref.WILLTOPICRESP} }},
	{"WILLMSGRESP", func() *snref.Pkt { return &snref.Pkt{Type: snref.WILLMSGRESP} }},
	{"SUBSCRIBE(q3)", func() *snref.Pkt { return snref.SubscribeName(16, 3, "t/q3") }},
	{"PUBLISH(tit3)", func() *snref.Pkt { return snref.Publish(3, 5, 17, 1, false, false, []byte("P-tit3")) }},
	{"REGISTER(wild)", func() *snref.Pkt { return snref.Register(0, 18, "t/#") }},
	{"PUBLISH(q2,short)", func() *snref.Pkt { return snref.Publish(2, snref.ShortID("cd"), 19, 2, false, true, []byte("P-q2-short")) }},
}

func stdPredefined() topics.PredefinedTopics {
	return topics.PredefinedTopics{"*": {1: "pre/one", 3: "pre/three"}, "cl": {2: "pre/two", 3: "pre/cl3"}}
}

func strp(s string) *string { return &s }

var credVariants = []struct {
	u *string
	p []byte
}{{nil, nil}, {strp("gwuser"), nil}, {strp("gwuser"), []byte("gwpass")}, {nil, []byte("onlypass")}}

// runConnectSeq runs one lock-step sequence of client packets against a fresh session.
func runConnectSeq(t *testing.T, c *rt.Case, seq []sym, auth bool, cred int, connackRC byte, silent bool, gaps []time.Duration, sessOpts ...func(*world.Session)) *GWRun {
	g := &GWRun{}
	g.Cfg = world.GWConfig{Auth: auth, User: credVariants[cred].u, Password: credVariants[cred].p, Predefined: stdPredefined(), RetryDelay: 10 * time.Second, RetryCount: 2}
	g.BCfg = world.BrokerCfg{ConnackRC: connackRC, Silent: silent}
	var names []string
	for _, s := range seq {
		names = append(names, s.name)
	}
	g.Desc = fmt.Sprintf("auth=%v cred=%d rc=%d silent=%v gaps=%v %s", auth, cred, connackRC, silent, gaps, strings.Join(names, ","))
	bubble(t, func() {
		w := world.New(g.Cfg)
		b := world.NewBroker(g.BCfg)
		s := w.NewSession(nil, b.Handler())
		for _, o := range sessOpts {
			o(s)
		}
		synctest.Wait()
		for i, sy := range seq {
			if i < len(gaps) && gaps[i] > 0 {
				time.Sleep(gaps[i])
				synctest.Wait()
			}
			p := sy.mk()
			g.Script = append(g.Script, fmt.Sprintf("client sends %s", p))
			s.SNSendP(p)
			synctest.Wait()
		}
		// let the connect timeout (5 s) and any retry timers run out
		time.Sleep(7 * time.Second)
		synctest.Wait()
		g.Script = append(g.Script, "7 s of silence, then gateway shutdown")
		w.Tr.Add(0, world.Note, nil, "shutdown")
		w.Finish()
		synctest.Wait()
		g.Evs = w.Tr.Events()
		handleLeaks(c, g)
		w.WaitHarness()
	})
	g.Items, g.RestOut = g.Session(0)
	g.NSess = 1
	return g
}

// wlConnectExhaustive: every sequence of length 1..3 over the 24 pre-connect symbols x auth on/off (broker accepting).
var wlConnectExhaustive = Workload{
	Name: "connect-exhaustive",
	N: func(r *rt.Run) int {
		n := len(preSyms)
		return 2 * (n + n*n + n*n*n)
	},
	Run: func(t *testing.T, c *rt.Case, i int, rng *rand.Rand) *GWRun {
		n := len(preSyms)
		auth := i%2 == 1
		k := i / 2
		var seq []sym
		switch {
		case k < n:
			seq = []sym{preSyms[k]}
		case k < n+n*n:
			k -= n
			seq = []sym{preSyms[k/n], preSyms[k%n]}
		default:
			k -= n + n*n
			seq = []sym{preSyms[k/(n*n)], preSyms[(k/n)%n], preSyms[k%n]}
		}
		return runConnectSeq(t, c, seq, auth, 2, 0, false, nil)
	},
}

// wlConnectRandom: longer random sequences biased towards valid flows, all broker behaviours and credential variants.
var wlConnectRandom = Workload{
	Name: "connect-random",
	N:    func(r *rt.Run) int { return r.N(4000, 80000) },
	Run: func(t *testing.T, c *rt.Case, i int, rng *rand.Rand) *GWRun {
		auth := rng.Intn(2) == 0
		var seq []sym
		all := append(append([]sym{}, preSyms...), extraSyms...)
		pick := func(names ...string) sym {
			nm := names[rng.Intn(len(names))]
			for _, s := range all {
				if s.name == nm {
					return s
				}
			}
			panic(nm)
		}
		// a (possibly perturbed) valid flow
		will := rng.Intn(2) == 0
		if will {
			seq = append(seq, pick("CONNECT(will)", "CONNECT(will,ka=65535)"))
		} else {
			seq = append(seq, pick("CONNECT", "CONNECT", "CONNECT(ka=0)"))
		}
		if auth || rng.Intn(4) == 0 {
			seq = append(seq, pick("AUTH(u1:p1)", "AUTH(u1:p1)", "AUTH(u2:p2)", "AUTH(long-pw)", "AUTH(malformed)", "AUTH(unknown-method)", "AUTH(4-parts)", "AUTH(empty-user-pw)", "AUTH(lowercase-method)"))
		}
		if will {
			seq = append(seq, pick("WILLTOPIC(w/t,q1,r)", "WILLTOPIC(q2)", "WILLTOPIC(q0,r)", "WILLTOPIC(long)", "WILLTOPIC(empty)", "WILLTOPIC(q3)"), pick("WILLMSG(bye)", "WILLMSG(bye)", "WILLMSG(long)", "WILLMSG(empty)"))
		}
		// perturbations: drop, duplicate, swap, insert random symbols
		for m := rng.Intn(4); m > 0 && len(seq) > 0; m-- {
			switch rng.Intn(4) {
			case 0:
				j := rng.Intn(len(seq))
				seq = append(seq[:j], seq[j+1:]...)
			case 1:
				j := rng.Intn(len(seq))
				seq = append(seq[:j+1], seq[j:]...)
			case 2:
				if len(seq) > 1 {
					j := rng.Intn(len(seq) - 1)
					seq[j], seq[j+1] = seq[j+1], seq[j]
				}
			case 3:
				j := rng.Intn(len(seq) + 1)
				s := all[rng.Intn(len(all))]
				seq = append(seq[:j], append([]sym{s}, seq[j:]...)...)
			}
		}
		// tail: traffic after the exchange
		for m := rng.Intn(4); m > 0; m-- {
			seq = append(seq, all[rng.Intn(len(all))])
		}
		rc := byte(0)
		silent := false
		switch rng.Intn(6) {
		case 0:
			rc = byte(1 + rng.Intn(5))
		case 1:
			silent = true
		case 2:
			rc = 9
		}
		var gaps []time.Duration
		if rng.Intn(3) == 0 {
			for range seq {
				gaps = append(gaps, []time.Duration{0, time.Second, 4900 * time.Millisecond}[rng.Intn(3)])
			}
		}
		return runConnectSeq(t, c, seq, auth, rng.Intn(len(credVariants)), rc, silent, gaps)
	},
}

// observeShapes records, for the evidence, which distinct behaviours the run showed: what the gateway
// sent between a waking PINGREQ and its PINGRESP (the order in which buffered and freshly arriving
// packets left - this is where the two receive loops race) and how the session ended.
func observeShapes(r *rt.Run, g *GWRun) {
	asleep, waking := false, false
	sleepReq := false
	var flush []string
	var tail []string
	for _, it := range g.Items {
		if it.Kind == world.Note && it.Note == "teardown" {
			break
		}
		switch it.Kind {
		case world.SNIn:
			if it.SN == nil {
				continue
			}
			switch it.SN.Type {
			case snref.DISCONNECT:
				sleepReq = it.SN.HasDur && it.SN.Duration > 0
			case snref.PINGREQ:
				if asleep {
					waking, flush = true, nil
				}
			case snref.CONNECT:
				asleep, waking = false, false
			}
		case world.SNOut:
			if it.SN == nil {
				continue
			}
			tn := snref.TypeName(it.SN.Type)
			if it.SN.Type == snref.PUBLISH {
				tn += fmt.Sprintf("q%d", it.SN.QoS)
			}
			if waking {
				if it.SN.Type == snref.PINGRESP {
					waking = false
					if len(flush) > 0 {
						r.Observe("wake-up flush order", strings.Join(flush, ","))
					}
				} else {
					flush = append(flush, tn)
				}
			}
			if it.SN.Type == snref.DISCONNECT && sleepReq {
				asleep, sleepReq = true, false
			}
		}
		switch it.Kind {
		case world.SNOut, world.MQOut, world.CloseMG, world.CloseSG, world.End, world.CloseMB:
			x := it.Kind
			if it.SN != nil && it.Kind == world.SNOut {
				x += ":" + snref.TypeName(it.SN.Type)
			}
			if it.MQ != nil && it.Kind == world.MQOut {
				x += ":" + mqttref.TypeName(it.MQ.Type)
			}
			tail = append(tail, x)
			if len(tail) > 4 {
				tail = tail[1:]
			}
			if it.Kind == world.End {
				r.Observe("how the session ended (last gateway actions)", strings.Join(tail, " "))
			}
		}
	}
}
