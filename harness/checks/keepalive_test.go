package checks

import (
	"fmt"
	"math/rand"
	"sort"
	"strings"
	"testing"
	"time"

	"verifharness/monitors"
	"verifharness/mqttref"
	"verifharness/rt"
	"verifharness/snref"
	"verifharness/world"
)

// ---------------------------------------------------------------- C12

// timedHistory builds a client history that meets the client's own
// obligations by construction: while active a packet at most every KA, while
// asleep a wake-up (or a new sleep request / CONNECT) within the announced duration.
func timedHistory(caseNo int, rng *rand.Rand) (ka uint16, steps []Step, horizon time.Duration) {
	ka = []uint16{1, 2, 10, 60, 600}[rng.Intn(5)]
	kaD := time.Duration(ka) * time.Second
	steps = []Step{snStep(snref.Connect("cl", ka, false, true)), snStep(snref.SubscribeName(2, 1, "#"))}
	mid := uint16(10)
	gap := func(limit time.Duration) time.Duration {
		switch rng.Intn(5) {
		case 0:
			return limit // exactly at the obligation
		case 1:
			return limit * 9 / 10
		case 2:
			return limit / 2
		case 3:
			return limit / 10
		}
		return limit - time.Millisecond
	}
	activePkt := func() Step {
		mid++
		switch rng.Intn(7) {
		case 0:
			return snStep(snref.Pingreq(""))
		case 1:
			return snStep(snref.Publish(2, snref.ShortID("ab"), 0, 0, false, false, []byte(fmt.Sprintf("k%d-%d", caseNo, mid))))
		case 2:
			return snStep(snref.Register(0, mid, fmt.Sprintf("t/%d", rng.Intn(4))))
		case 3:
			return snStep(snref.SubscribeName(mid, 0, fmt.Sprintf("s/%d", rng.Intn(3))))
		case 4:
			// an acknowledgement for nothing in particular (a late PUBACK): not forwarded
			return snStep(snref.Puback(1, 9999, 0))
		case 5:
			return snStep(snref.Register(0, mid, "t/same"))
		}
		return snStep(snref.MsgOnly(snref.PUBCOMP, 9998))
	}
	total := time.Duration(0)
	limit := 3 * time.Hour
	phases := 2 + rng.Intn(5)
	for ph := 0; ph < phases && total < limit; ph++ {
		if rng.Intn(3) > 0 {
			// active phase
			for k := 1 + rng.Intn(6); k > 0; k-- {
				g := gap(kaD)
				steps = append(steps, advStep(g), activePkt())
				total += g
			}
			continue
		}
		// sleep phase: 1..5 cycles
		ds := []uint16{ka / 2, ka - 1, ka, ka + 1, 2 * ka, 3*ka + 1, 10 * ka, 65535}
		d := ds[rng.Intn(len(ds))]
		if d == 0 {
			d = 1
		}
		if d == 65535 && total > 0 {
			d = 7 * ka
		}
		dD := time.Duration(d) * time.Second
		g := gap(kaD)
		steps = append(steps, advStep(g), snStep(snref.Sleep(d)))
		total += g
		for cy := 1 + rng.Intn(5); cy > 0 && total < limit; cy-- {
			g := gap(dD)
			if rng.Intn(3) == 0 {
				steps = append(steps, advStep(g/2), pubStep("ab", byte(rng.Intn(2)), false, fmt.Sprintf("b%d-%d", caseNo, cy)), advStep(g-g/2))
			} else {
				steps = append(steps, advStep(g))
			}
			total += g
			switch rng.Intn(4) {
			case 0:
				d = ds[rng.Intn(len(ds)-1)]
				if d == 0 {
					d = 1
				}
				dD = time.Duration(d) * time.Second
				steps = append(steps, snStep(snref.Sleep(d))) // new duration without waking up first
			default:
				steps = append(steps, snStep(snref.Pingreq("cl")))
			}
		}
		// back to active, within the sleep duration
		g = gap(dD)
		// The CONNECT of a sleeping client does not open a new MQTT connection: whatever keep-alive
		// it announces, the broker still applies the one of the original CONNECT (which the client
		// goes on honouring in this history).
		ka2 := ka
		switch rng.Intn(6) {
		case 0:
			ka2 = 65535
		case 1:
			ka2 = 10 * ka
		case 2:
			if ka > 1 {
				ka2 = ka / 2
			}
		}
		steps = append(steps, advStep(g), snStep(snref.Connect("cl", ka2, false, false)))
		total += g
	}
	// the history's horizon: the last obligation is still met at this instant
	steps = append(steps, advStep(time.Millisecond))
	return ka, steps, total
}

func judgeC12(g *GWRun) (vs []monitors.V, checked int) {
	ka, _ := g.Extra["ka"].(uint16)
	lim := time.Duration(ka) * 1500 * time.Millisecond
	var last time.Duration = -1
	var lastIt monitors.Item
	type cev struct {
		t time.Duration
		p *snref.Pkt
	}
	var cevs []cev // client packets so far
	for _, it := range g.Items {
		if it.MQ != nil && it.Kind == world.MQIn && it.MQ.Type == mqttref.CONNACK && it.MQ.RC == 0 && last < 0 {
			last = it.T
			lastIt = it
		}
		if it.Kind == world.SNIn && it.SN != nil {
			cevs = append(cevs, cev{it.T, it.SN})
		}
		if last < 0 {
			continue
		}
		end := it.Kind == world.End || (it.Kind == world.Note && it.Note == "horizon")
		if it.Kind == world.MQOut || end {
			checked++
			if it.T-last > lim {
				// client state and client packets strictly inside the silent interval (the packet that ended it excluded)
				mode := "active"
				kinds := map[string]bool{}
				for _, c := range cevs {
					if c.t >= it.T {
						break
					}
					switch {
					case c.p.Type == snref.DISCONNECT && c.p.HasDur && c.p.Duration > 0:
						mode = "asleep"
						if c.p.Duration <= ka {
							mode = "asleep-short"
						}
					case c.p.Type == snref.CONNECT:
						mode = "active"
					}
					if c.t > last {
						kinds[snref.TypeName(c.p.Type)] = true
					}
				}
				cls := mode
				if mode == "active" {
					// REGISTER and stray acknowledgements are never passed on
					only := true
					var ks []string
					for k := range kinds {
						ks = append(ks, k)
						if k != "REGISTER" && k != "PUBACK" && k != "PUBCOMP" && k != "REGACK" && k != "PUBREC" {
							only = false
						}
					}
					sort.Strings(ks)
					if only {
						cls = "active|client-sent-only-unforwarded-packets"
					} else {
						cls = "active|had:" + strings.Join(ks, "+")
					}
				}
				vs = append(vs, monitors.V{Prop: "C12", Sig: "broker-starved|" + cls, What: fmt.Sprintf("keep-alive %d s: nothing was sent to the broker between %v and %v (%v > 1.5 x keep-alive) although the client met its obligations (client state in the interval: %s)", ka, last, it.T, it.T-last, cls), Seq: lastIt.Seq})
			}
			last = it.T
			lastIt = it
		}
		if end {
			break
		}
	}
	return
}

var wlKeepalive = Workload{
	Name: "timed-histories",
	N:    func(r *rt.Run) int { return r.N(1000, 20000) },
	Run: func(t *testing.T, c *rt.Case, i int, rng *rand.Rand) *GWRun {
		ka, steps, _ := timedHistory(c.I, rng)
		steps = append(steps, Step{Kind: "note", Cause: "horizon"})
		g := runScript(t, c, world.GWConfig{Predefined: stdPredefined(), RetryCount: 1, RetryDelay: 5 * time.Second}, world.BrokerCfg{FirstID: 30000}, PeerOpts{}, steps, 0, nil)
		g.Extra = map[string]interface{}{"ka": ka}
		return g
	},
}

func TestC12(t *testing.T) {
	r := rt.Start(t, "C12")
	runWorkloads(t, r, []Workload{wlKeepalive}, func(g *GWRun) ([]monitors.V, int) { return judgeC12(g) })
	r.Finish("timed histories in virtual time (up to ~3 h each), keep-alive in {1,2,10,60,600} s: 2-6 phases, each either active (1-6 packets, each at most one keep-alive after the previous one, at {10,50,90,~100,100}% of it; kinds PINGREQ, PUBLISH QoS 0, REGISTER of a new or known name, SUBSCRIBE, stray PUBACK/PUBCOMP - only some of which are forwarded) or asleep (durations {KA/2,KA-1,KA,KA+1,2KA,3KA+1,10KA,65535}, 1-5 cycles of wake-up PINGREQ or a new sleep request placed within the announced duration, broker publishes meanwhile, then CONNECT back to active within the duration). The broker does not enforce keep-alive here; the monitor measures every gap between consecutive gateway->broker packets (and to the horizon) against 1.5 x keep-alive. Non-trivial = at least one gap measured; distinct by script.", nil)
}

// ---------------------------------------------------------------- C34

type vanishCase struct {
	name   string
	ka     uint16
	steps  []Step
	state  string // reference state when the client falls silent
	lastD  uint16 // latest announced sleep duration (asleep states)
	cutMin int
}

func vanishHistories() []vanishCase {
	var out []vanishCase
	for _, ka := range []uint16{1, 10, 60} {
		base := []Step{snStep(snref.Connect("cl", ka, false, true)), snStep(snref.SubscribeName(2, 1, "#")), snStep(snref.Register(0, 3, "a/b")),
			snStep(snref.Publish(2, snref.ShortID("ab"), 4, 1, false, false, []byte("x")))}
		kaD := time.Duration(ka) * time.Second
		out = append(out, vanishCase{name: "active", ka: ka, steps: append(append([]Step{}, base...), advStep(kaD/2), snStep(snref.Pingreq("")), advStep(kaD/2), snStep(snref.Register(0, 5, "c/d")))})
		for _, ds := range [][]uint16{{ka / 2}, {ka}, {3 * ka}, {65535}, {20 * ka, ka}, {20 * ka, 2 * ka, ka / 2}, {65535, 2 * ka}} {
			st := append([]Step{}, base...)
			for i, d := range ds {
				if d == 0 {
					d = 1
				}
				st = append(st, snStep(snref.Sleep(d)), advStep(time.Duration(d)*time.Second/4))
				if i < len(ds)-1 || len(ds) == 1 {
					st = append(st, snStep(snref.Pingreq("cl")), advStep(time.Duration(d)*time.Second/8))
				}
			}
			out = append(out, vanishCase{name: fmt.Sprintf("sleeps%v", ds), ka: ka, steps: st})
			// ... and back to active afterwards (an early long sleep must not keep the session alive)
			st2 := append(append([]Step{}, st...), snStep(snref.Connect("cl", ka, false, false)), advStep(kaD/2), snStep(snref.Pingreq("")))
			out = append(out, vanishCase{name: fmt.Sprintf("sleeps%v-then-active", ds), ka: ka, steps: st2})
		}
		// a sleeping client with buffered messages whose wake-up flush hits a send error (one failing / all failing
		// gateway->client writes), then silence: the failed send must not leave a half-open session behind
		for _, all := range []time.Duration{0, 1} {
			st := append(append([]Step{}, base...), snStep(snref.Sleep(3*ka)), pubStep("ab", 1, false, "buffered-1"), pubStep("new/topic", 0, false, "buffered-2"),
				advStep(kaD), Step{Kind: "fail-sends", D: all}, snStep(snref.Pingreq("cl")))
			out = append(out, vanishCase{name: fmt.Sprintf("asleep-buffered-send-error(all=%d)", all), ka: ka, steps: st})
		}
		// connecting
		out = append(out, vanishCase{name: "connecting-will", ka: ka, steps: []Step{advStep(time.Second), snStep(snref.Connect("cl", ka, true, true))}})
	}
	return out
}

type vanishInst struct {
	h           int
	cut         int
	unreachable bool // from the silence on every gateway->client write fails (the vanished client's address is unreachable)
}

func vanishInsts() []vanishInst {
	var out []vanishInst
	for hi, h := range vanishHistories() {
		for cut := 0; cut <= len(h.steps); cut++ {
			if cut < len(h.steps) && (h.steps[cut].Kind == "advance" || h.steps[cut].Kind == "pub" || (cut > 0 && h.steps[cut-1].Kind == "fail-sends")) {
				continue // silence begins after a client packet (or at the very start)
			}
			out = append(out, vanishInst{hi, cut, false})
			if h.name == "active" || strings.HasSuffix(h.name, "-then-active") || h.name == "connecting-will" {
				out = append(out, vanishInst{hi, cut, true})
			}
		}
	}
	return out
}

var wlVanish = Workload{
	Name: "vanished-client",
	N:    func(r *rt.Run) int { return len(vanishInsts()) },
	Run: func(t *testing.T, c *rt.Case, i int, rng *rand.Rand) *GWRun {
		in := vanishInsts()[i]
		h := vanishHistories()[in.h]
		steps := append([]Step{}, h.steps[:in.cut]...)
		steps = append(steps, Step{Kind: "note", Cause: "client-silent-from-here"})
		if in.unreachable {
			steps = append(steps, Step{Kind: "fail-sends", D: 1})
		}
		// long enough for the largest bound of this history: longest announced sleep + 1.5 KA, and then some
		maxD := uint16(0)
		for _, st := range steps {
			if st.Kind == "sn" && st.Pkt.Type == snref.DISCONNECT && st.Pkt.HasDur && st.Pkt.Duration > maxD {
				maxD = st.Pkt.Duration
			}
		}
		steps = append(steps, advStep(time.Duration(maxD)*time.Second+time.Duration(h.ka)*4*time.Second+120*time.Second))
		g := runScript(t, c, world.GWConfig{Predefined: stdPredefined(), RetryCount: 2, RetryDelay: 10 * time.Second}, world.BrokerCfg{FirstID: 30000, EnforceKA: true}, PeerOpts{NoWillReply: true}, steps, 0, nil)
		g.Desc = fmt.Sprintf("%s/ka=%d/cut=%d/unreachable=%v", h.name, h.ka, in.cut, in.unreachable)
		g.Extra = map[string]interface{}{"ka": h.ka}
		return g
	},
}

func judgeC34(g *GWRun) (vs []monitors.V, checked int) {
	ka, _ := g.Extra["ka"].(uint16)
	kaD := time.Duration(ka) * time.Second
	var silentAt time.Duration = -1
	silentSeq := -1
	for _, it := range g.Items {
		if it.Kind == world.Note && it.Note == "client-silent-from-here" {
			silentAt, silentSeq = it.T, it.Seq
		}
	}
	if silentSeq < 0 {
		return nil, 0
	}
	// if the session had ended before the silence began there is nothing to reap
	for _, it := range g.Items {
		if it.Kind == world.End && it.Seq < silentSeq {
			return nil, 0
		}
	}
	st := refState(g.Items, silentSeq)
	// reference deadline
	var bound time.Duration
	var lastConnect time.Duration = -1
	var lastD uint16
	var lastClient time.Duration
	connected := false
	for _, it := range g.Items {
		if it.Seq >= silentSeq {
			break
		}
		if it.Kind == world.SNIn && it.SN != nil {
			lastClient = it.T
			if it.SN.Type == snref.CONNECT {
				lastConnect = it.T
			}
			if it.SN.Type == snref.DISCONNECT && it.SN.HasDur {
				lastD = it.SN.Duration
			}
		}
		if it.Kind == world.SNOut && it.SN != nil && it.SN.Type == snref.CONNACK && it.SN.RC == 0 {
			connected = true
		}
	}
	slack := 100 * time.Millisecond
	switch {
	case !connected && lastConnect >= 0:
		st = "connecting"
		bound = lastConnect + 5*time.Second + slack
	case !connected:
		st = "never-connected"
		bound = 10*time.Second + slack // the broker drops a connection without CONNECT
	case st == "active" || st == "awake":
		bound = lastClient + kaD*3/2 + slack
	case st == "asleep" || st == "dontcare":
		st = "asleep"
		bound = lastClient + time.Duration(lastD)*time.Second + kaD*3/2 + slack
	default:
		return nil, 0
	}
	_ = silentAt
	checked = 1
	end, ok := monitors.EndTime(g.Items)
	// the end must come from the system itself, not from the harness teardown
	for _, it := range g.Items {
		if it.Kind == world.Note && it.Note == "teardown" && ok && it.T <= end {
			ok = false
		}
	}
	if !ok || end > bound {
		when := "never (observed until teardown)"
		if ok {
			when = end.String()
		}
		vs = append(vs, monitors.V{Prop: "C34", Sig: "session-not-reaped|" + st, What: fmt.Sprintf("client silent from %v in state %s (keep-alive %d s, last announced sleep %d s): session ended %s, bound %v", lastClient, st, ka, lastD, when, bound), Seq: silentSeq})
	}
	return
}

func TestC34(t *testing.T) {
	r := rt.Start(t, "C34")
	r.DeadlockIsViolation = true // a session stuck on a mutex for ever is a half-open session
	leakIsViolation = "C34"      // so is a session whose goroutines are still there after the world was shut down
	runWorkloads(t, r, []Workload{wlVanish}, func(g *GWRun) ([]monitors.V, int) { return judgeC34(g) })
	r.Finish(fmt.Sprintf("all %d cases: base histories (active with forwarded and non-forwarded traffic; one sleep of KA/2, KA, 3KA, 65535 s; multi-cycle sleeps with decreasing durations such as 20KA then KA, 65535 then 2KA, each also followed by a return to active; a half-open CONNECT with will; a sleeping client with buffered messages whose wake-up flush runs into a send error) for keep-alive 1, 10 and 60 s, with the client falling silent forever after every client packet (and at the very start), for the active / connecting histories also as 'silent and unreachable' (every later gateway->client write fails); the simulated broker enforces keep-alive (closes after 1.5 x KA without a packet, and after 10 s without CONNECT). Each case is observed for its longest announced sleep + 4 KA + 120 virtual seconds (up to ~66000 s). Oracle: the handler returns by last-client-packet + {5 s connect timeout | 1.5 KA (active/awake) | latest announced sleep duration + 1.5 KA (asleep)} + 100 ms. exhaustive for the stated case list.", len(vanishInsts())), nil)
}
