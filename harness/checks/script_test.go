package checks

import (
	"fmt"
	"runtime"
	"strings"
	"sync"
	"testing"
	"testing/synctest"
	"time"

	"verifharness/memnet"
	"verifharness/mqttref"
	"verifharness/rt"
	"verifharness/snref"
	"verifharness/world"
)

// Step is one step of a session script.
type Step struct {
	Kind string // "sn": client sends Pkt; "raw": client sends Raw; "pub": broker publishes; "mqraw": broker sends Raw;
	// "advance": virtual time passes; "cause": termination cause; "note"
	Pkt     *snref.Pkt
	Raw     []byte
	Topic   string
	QoS     byte
	Retain  bool
	Payload []byte
	D       time.Duration
	Cause   string // shutdown | broker-close | broker-garbage | sn-garbage
	NoWait  bool   // do not wait for quiescence after this step (racy scripts)
	N       int    // "stall-partial": bytes the broker's receive buffer still takes
}

func (s Step) String() string {
	switch s.Kind {
	case "sn":
		return "client sends " + s.Pkt.String()
	case "raw":
		return fmt.Sprintf("client sends raw %x", cut(s.Raw, 24))
	case "pub":
		return fmt.Sprintf("broker publishes topic=%q qos=%d retain=%v payload=%q", s.Topic, s.QoS, s.Retain, cut(s.Payload, 24))
	case "mqraw":
		return fmt.Sprintf("broker sends raw %x", cut(s.Raw, 24))
	case "advance":
		return fmt.Sprintf("advance %v", s.D)
	case "stall":
		return "broker stops reading"
	case "stall-partial":
		return fmt.Sprintf("broker stops reading, its receive buffer takes %d more bytes (partial writes)", s.N)
	case "resume":
		return "broker reads again"
	case "fail-broker-writes":
		if s.D > 0 {
			return "every later gateway->broker write fails"
		}
		return "the next gateway->broker write fails"
	case "fail-sends":
		if s.D > 0 {
			return "every later gateway->client datagram write fails"
		}
		return "the next gateway->client datagram write fails"
	case "cause":
		return "cause: " + s.Cause
	}
	return s.Kind
}

func snStep(p *snref.Pkt) Step { return Step{Kind: "sn", Pkt: p} }
func pubStep(topic string, qos byte, retain bool, payload string) Step {
	return Step{Kind: "pub", Topic: topic, QoS: qos, Retain: retain, Payload: []byte(payload)}
}
func advStep(d time.Duration) Step { return Step{Kind: "advance", D: d} }
func causeStep(c string) Step      { return Step{Kind: "cause", Cause: c} }

// PeerOpts configures the scripted MQTT-SN client's automatic replies.
type PeerOpts struct {
	NoAutoAck      bool // do not answer REGISTER/PUBLISH/PUBREL from the gateway
	RegackRC       byte
	RejectRegister func(name string) bool // refuse (RC 2) the gateway's REGISTER of this name
	WillTopic      string
	WillQoS        uint8
	WillRetain     bool
	WillMsg        []byte
	NoWillReply    bool
	AckDelay       time.Duration // REGACK / PUBACK / PUBREC / PUBCOMP are sent this much later (virtual time)
	DupRegack      time.Duration // > 0: every REGACK is sent a second time this much after the first copy
	LongForm       int           // datagrams of the client use the 3-byte Length form: 1 all, 2 all but CONNECT, 3 DISCONNECT only
}

// peerHandler returns the automatic responder of the scripted client: it
// behaves like a well-behaved client for gateway-initiated exchanges.
func peerHandler(o PeerOpts) func(s *world.Session, p *snref.Pkt, raw []byte) {
	return func(s *world.Session, p *snref.Pkt, raw []byte) {
		if p == nil {
			return
		}
		switch p.Type {
		case snref.WILLTOPICREQ:
			if !o.NoWillReply {
				s.SNSendP(snref.WillTopic(o.WillTopic, o.WillQoS, o.WillRetain))
			}
		case snref.WILLMSGREQ:
			if !o.NoWillReply {
				s.SNSendP(snref.WillMsg(o.WillMsg))
			}
		}
		if o.NoAutoAck {
			return
		}
		reply := func(q *snref.Pkt) {
			if o.AckDelay > 0 {
				time.AfterFunc(o.AckDelay, func() { s.SNSendP(q) })
				return
			}
			s.SNSendP(q)
		}
		switch p.Type {
		case snref.REGISTER:
			rc := o.RegackRC
			if o.RejectRegister != nil && o.RejectRegister(p.Name) {
				rc = 2
			}
			reply(snref.Regack(p.TopicID, p.MsgID, rc))
			if o.DupRegack > 0 {
				q := snref.Regack(p.TopicID, p.MsgID, rc)
				time.AfterFunc(o.AckDelay+o.DupRegack, func() { s.SNSendP(q) })
			}
		case snref.PUBLISH:
			switch p.QoS {
			case 1:
				reply(snref.Puback(p.TopicID, p.MsgID, 0))
			case 2:
				reply(snref.MsgOnly(snref.PUBREC, p.MsgID))
			}
		case snref.PUBREL:
			reply(snref.MsgOnly(snref.PUBCOMP, p.MsgID))
		}
	}
}

// runScript runs a script against one fresh session of a fresh world and returns the record.
// afterHook (optional) runs inside the bubble after the script and before teardown.
func runScript(t *testing.T, c *rt.Case, cfg world.GWConfig, bcfg world.BrokerCfg, po PeerOpts, steps []Step, tail time.Duration, inBubble func(w *world.World, s *world.Session, b *world.Broker)) *GWRun {
	g := &GWRun{Cfg: cfg, BCfg: bcfg, NSess: 1}
	for _, st := range steps {
		g.Script = append(g.Script, st.String())
	}
	g.Desc = strings.Join(g.Script, ";") + "|" + cfgDesc(cfg) + fmt.Sprintf("|rc=%d", bcfg.ConnackRC)
	bubble(t, func() {
		w := world.New(cfg)
		b := world.NewBroker(bcfg)
		s := w.NewSession(peerHandler(po), b.Handler())
		s.LongForm = po.LongForm
		if po.LongForm > 0 {
			w.Tr.Add(s.ID, world.Note, nil, "the client uses the 3-byte Length form for "+[]string{"", "every datagram", "every datagram but CONNECT", "DISCONNECT"}[po.LongForm])
		}
		if bcfg.EnforceKA {
			b.Attach(s)
		}
		synctest.Wait()
		execSteps(w, s, b, steps)
		if leakIsViolation != "" {
			// "no goroutine of the session outlives it": look right after the handler returned
			// (one poll interval after the cause), before timers that would clean up later can fire
			time.Sleep(150 * time.Millisecond)
			synctest.Wait()
			if s.Ended() {
				g.Evs = w.Tr.Events()
				handleLeaks(c, g)
			}
		}
		if tail > 0 {
			time.Sleep(tail)
			synctest.Wait()
		}
		if inBubble != nil {
			inBubble(w, s, b)
		}
		w.Tr.Add(0, world.Note, nil, "teardown")
		w.Finish()
		synctest.Wait()
		g.Evs = w.Tr.Events()
		handleLeaks(c, g)
		w.WaitHarness()
	})
	g.Items, g.RestOut = g.Session(0)
	return g
}

func execSteps(w *world.World, s *world.Session, b *world.Broker, steps []Step) {
	for _, st := range steps {
		switch st.Kind {
		case "sn":
			s.SNSendP(st.Pkt)
		case "raw":
			s.SNSend(st.Raw)
		case "pub":
			b.Publish(s, st.Topic, st.QoS, st.Retain, st.Payload)
		case "mqraw":
			s.MQSend(st.Raw)
		case "advance":
			time.Sleep(st.D)
		case "stall":
			w.Tr.Add(s.ID, world.Note, nil, "broker stops reading (link capacity 2048 bytes)")
			s.StallBroker(2048)
		case "stall-partial":
			w.Tr.Add(s.ID, world.Note, nil, st.String())
			s.MQ.SetPartialWrites(true)
			s.StallBroker(st.N)
		case "resume":
			w.Tr.Add(s.ID, world.Note, nil, st.String())
			s.ResumeBroker()
		case "fail-broker-writes":
			w.Tr.Add(s.ID, world.Note, nil, st.String())
			if st.D > 0 {
				s.FailBrokerWrites(1 << 30)
			} else {
				s.FailBrokerWrites(1)
			}
		case "fail-sends":
			// D > 0: every later write fails; D == 0: only the next one
			all := st.D > 0
			var fmu sync.Mutex
			used := false
			w.Tr.Add(s.ID, world.Note, nil, st.String())
			s.SetPlan(func(dir string, p *snref.Pkt, n int) memnet.Action {
				if dir != world.SNOut {
					return memnet.Pass
				}
				fmu.Lock()
				defer fmu.Unlock()
				if all || !used {
					used = true
					return memnet.Fail
				}
				return memnet.Pass
			})
		case "note":
			w.Tr.Add(s.ID, world.Note, nil, st.Cause)
		case "note-cause":
			w.Tr.Add(s.ID, world.Note, nil, "cause:"+st.Cause)
		case "cause":
			w.Tr.Add(s.ID, world.Note, nil, "cause:"+st.Cause)
			switch st.Cause {
			case "shutdown":
				s.Stop()
			case "broker-close":
				s.BrokerClose()
			case "broker-reset":
				s.BrokerReset()
			case "broker-garbage":
				s.MQSend([]byte{0xf0, 0x02, 0x00, 0x00}) // reserved packet type 15
			case "broker-illegal":
				s.MQSend(mqttref.EncSubscribe(7, "x", 0)) // decodable packet a broker must never send
			case "sn-garbage":
				s.SNSend([]byte{0x05, 0x19, 0x00, 0x00, 0x00}) // undefined packet type 0x19
			case "sn-short":
				s.SNSend([]byte{0x02})
			}
		}
		if !st.NoWait {
			synctest.Wait()
		}
	}
}

// bubbleLeaks returns the stacks of goroutines of the calling goroutine's
// bubble that are still inside bisquitt code. Call at quiescence.
func bubbleLeaks() []string {
	buf := make([]byte, 1<<20)
	n := runtime.Stack(buf, true)
	dump := string(buf[:n])
	blocks := strings.Split(dump, "\n\n")
	if len(blocks) == 0 {
		return nil
	}
	// the first block is the calling goroutine: "goroutine N [running, synctest bubble B]:"
	bubbleTag := ""
	if i := strings.Index(blocks[0], "synctest bubble "); i >= 0 {
		rest := blocks[0][i:]
		if j := strings.IndexAny(rest, "]:,\n"); j > 0 {
			bubbleTag = rest[:j]
		}
	}
	if bubbleTag == "" {
		return nil
	}
	var out []string
	for _, b := range blocks[1:] {
		head := b
		if i := strings.Index(b, "\n"); i > 0 {
			head = b[:i]
		}
		if !strings.Contains(head, bubbleTag+"]") && !strings.Contains(head, bubbleTag+",") {
			continue
		}
		if strings.Contains(b, "github.com/energomonitor/bisquitt/") {
			if len(b) > 1500 {
				b = b[:1500]
			}
			out = append(out, b)
		}
	}
	return out
}

var _ = sync.Mutex{}
var _ = mqttref.CONNECT
