package checks

import (
	"bytes"
	"fmt"
	"math/rand"
	"testing"
	"testing/synctest"
	"time"

	"github.com/energomonitor/bisquitt/topics"

	"verifharness/monitors"
	"verifharness/rt"
	"verifharness/snref"
	"verifharness/world"
)

// longFormOf: every eighth case of a workload has a client that writes the 3-byte Length form (for all
// datagrams / all but CONNECT / DISCONNECT only, in turn).
func longFormOf(i int) int {
	if i%8 != 5 {
		return 0
	}
	return 1 + (i/8)%3
}

// wlSleep: sleep/wake cycles with broker traffic at chosen instants (lock-step).
var wlSleep = Workload{
	Name: "sleep",
	N:    func(r *rt.Run) int { return r.N(1200, 24000) },
	Run: func(t *testing.T, c *rt.Case, i int, rng *rand.Rand) *GWRun {
		return runScript(t, c, world.GWConfig{Predefined: stdPredefined(), RetryCount: 1}, world.BrokerCfg{FirstID: 30000}, PeerOpts{LongForm: longFormOf(i)}, sleepScript(c.I, rng), 2*time.Second, nil)
	},
}

func sleepScript(caseNo int, rng *rand.Rand) []Step {
	ka := []uint16{5, 10, 60}[rng.Intn(3)]
	steps := []Step{snStep(snref.Connect("cl", ka, false, true)), snStep(snref.SubscribeName(2, uint8(rng.Intn(3)), "#"))}
	if rng.Intn(2) == 0 {
		steps = append(steps, snStep(snref.Register(0, 3, "a/b")))
	}
	tag := 0
	pub := func() Step {
		tag++
		topic := []string{"ab", "pre/one", "a/b", "new/" + fmt.Sprint(tag), "pre/two"}[rng.Intn(5)]
		return pubStep(topic, byte(rng.Intn(3)), false, fmt.Sprintf("s%d-%d", caseNo, tag))
	}
	cycles := 1 + rng.Intn(4)
	for cy := 0; cy < cycles; cy++ {
		d := []uint16{ka / 2, ka - 1, ka, ka + 1, 2 * ka, 10 * ka}[rng.Intn(6)]
		if d == 0 {
			d = 1
		}
		steps = append(steps, snStep(snref.Sleep(d)))
		for k := rng.Intn(4); k > 0; k-- {
			steps = append(steps, advStep(time.Duration(1+rng.Intn(int(d)))*time.Second/4), pub())
		}
		steps = append(steps, advStep(time.Duration(rng.Intn(int(d)+1))*time.Second/2))
		steps = append(steps, snStep(snref.Pingreq("cl")))
		if rng.Intn(3) == 0 {
			steps = append(steps, pub())
		}
		switch rng.Intn(4) {
		case 0:
			steps = append(steps, snStep(snref.Connect("cl", ka, false, false)), pub())
		case 1:
			// stay in the post-PINGRESP phase and sleep again
		}
	}
	switch rng.Intn(3) {
	case 0:
		steps = append(steps, snStep(snref.Disconnect()))
	case 1:
		steps = append(steps, causeStep("shutdown"))
	}
	return steps
}

// wlSleepInflight: the client falls asleep while an exchange it started is still waiting for the
// broker's answer (the broker model answers late), then wakes up.
var wlSleepInflight = Workload{
	Name: "sleep-inflight",
	N:    func(r *rt.Run) int { return r.N(600, 12000) },
	Run: func(t *testing.T, c *rt.Case, i int, rng *rand.Rand) *GWRun {
		ka := uint16(10)
		steps := []Step{snStep(snref.Connect("cl", ka, false, true)), snStep(snref.SubscribeName(2, uint8(rng.Intn(3)), "#")), advStep(2 * time.Second)}
		mid := uint16(2)
		tag := 0
		inflight := func() Step {
			mid++
			switch rng.Intn(6) {
			case 0, 1:
				return snStep(snref.Pingreq(""))
			case 2:
				return snStep(snref.Publish(2, snref.ShortID("ab"), mid, 1, false, false, []byte(fmt.Sprintf("cp%d-%d", c.I, mid))))
			case 3:
				return snStep(snref.Publish(2, snref.ShortID("cd"), mid, 2, false, false, []byte(fmt.Sprintf("cp%d-%d", c.I, mid))))
			case 4:
				return snStep(snref.SubscribeName(mid, 1, fmt.Sprintf("x/%d", mid)))
			}
			return snStep(snref.UnsubscribeName(mid, "never/subscribed"))
		}
		pub := func() Step {
			tag++
			topic := []string{"ab", "pre/one", "cd"}[rng.Intn(3)]
			return pubStep(topic, byte(rng.Intn(3)), false, fmt.Sprintf("i%d-%d", c.I, tag))
		}
		for cy := 0; cy < 1+rng.Intn(3); cy++ {
			for k := 1 + rng.Intn(2); k > 0; k-- {
				steps = append(steps, inflight())
			}
			steps = append(steps, snStep(snref.Sleep(uint16(5+rng.Intn(20)))), advStep(500*time.Millisecond))
			for k := rng.Intn(3); k > 0; k-- {
				steps = append(steps, pub())
			}
			// the late answers arrive now, while the client sleeps
			steps = append(steps, advStep(2*time.Second))
			if rng.Intn(2) == 0 {
				steps = append(steps, pub())
			}
			steps = append(steps, snStep(snref.Pingreq("cl")), advStep(time.Second))
			if rng.Intn(2) == 0 {
				steps = append(steps, snStep(snref.Connect("cl", ka, false, false)), advStep(time.Second))
			} else {
				steps = append(steps, snStep(snref.Pingreq("cl")), advStep(time.Second), snStep(snref.Connect("cl", ka, false, false)), advStep(time.Second))
			}
		}
		bc := world.BrokerCfg{FirstID: 30000, PingrespDelay: time.Second, AckDelay: time.Second}
		return runScript(t, c, world.GWConfig{Predefined: stdPredefined(), RetryCount: 1, RetryDelay: 100 * time.Second}, bc, PeerOpts{}, steps, 2*time.Second, nil)
	},
}

// ---- termination workload: base histories x cause x every step index ----

type baseHist struct {
	name  string
	cfg   world.GWConfig
	po    PeerOpts
	bcfg  world.BrokerCfg
	steps []Step
}

func baseHistories() []baseHist {
	pre := stdPredefined()
	gw := func(auth bool) world.GWConfig {
		return world.GWConfig{Auth: auth, Predefined: pre, RetryDelay: 10 * time.Second, RetryCount: 2}
	}
	return []baseHist{
		{"connect+traffic", gw(false), PeerOpts{}, world.BrokerCfg{FirstID: 30000}, []Step{
			snStep(snref.Connect("cl", 30, false, true)),
			snStep(snref.Register(0, 2, "a/b")),
			snStep(snref.Publish(0, 4, 3, 1, false, false, []byte("p1"))), // 4 = the TopicID REGISTER got (1-3 are predefined)
			snStep(snref.SubscribeName(4, 1, "a/#")),
			pubStep("a/x", 1, false, "b1"),
			snStep(snref.Publish(2, snref.ShortID("ab"), 5, 2, false, false, []byte("p2"))),
			snStep(snref.MsgOnly(snref.PUBREL, 5)),
			snStep(snref.Pingreq("")),
		}},
		{"will+auth", gw(true), PeerOpts{WillTopic: "w/t", WillQoS: 1, WillMsg: []byte("bye")}, world.BrokerCfg{FirstID: 30000}, []Step{
			snStep(snref.Connect("cl", 30, true, true)),
			snStep(snref.AuthPlain("u", []byte("p"))),
			snStep(snref.SubscribeID(2, 0, 1, 1)),
			pubStep("pre/one", 0, false, "b0"),
		}},
		{"broker-publishes-in-flight", gw(false), PeerOpts{NoAutoAck: true}, world.BrokerCfg{FirstID: 30000}, []Step{
			snStep(snref.Connect("cl", 30, false, true)),
			snStep(snref.SubscribeName(2, 2, "#")),
			pubStep("ab", 1, false, "q1-short-unacked"),
			pubStep("new/topic", 2, false, "q2-needs-register"),
			pubStep("other/new", 0, false, "q0-needs-register"),
			advStep(11 * time.Second),
		}},
		{"client-publish-unacked", gw(false), PeerOpts{}, world.BrokerCfg{FirstID: 30000, NoPuback: true, NoSuback: true}, []Step{
			snStep(snref.Connect("cl", 30, false, true)),
			snStep(snref.Publish(2, snref.ShortID("ab"), 2, 1, false, false, []byte("unacked"))),
			snStep(snref.SubscribeName(3, 1, "never/acked")),
			advStep(3 * time.Second),
		}},
		{"asleep-with-pinger", gw(false), PeerOpts{}, world.BrokerCfg{FirstID: 30000}, []Step{
			snStep(snref.Connect("cl", 5, false, true)),
			snStep(snref.SubscribeName(2, 1, "#")),
			snStep(snref.Sleep(60)),
			pubStep("ab", 1, false, "while-asleep"),
			advStep(12 * time.Second),
		}},
		{"asleep-short-then-awake", gw(false), PeerOpts{}, world.BrokerCfg{FirstID: 30000}, []Step{
			snStep(snref.Connect("cl", 30, false, true)),
			snStep(snref.SubscribeName(2, 1, "#")),
			snStep(snref.Sleep(10)),
			pubStep("ab", 0, false, "buffered"),
			advStep(5 * time.Second),
			snStep(snref.Pingreq("cl")),
			advStep(time.Second),
			snStep(snref.Connect("cl", 30, false, false)),
		}},
		{"stalled-broker", gw(false), PeerOpts{}, world.BrokerCfg{FirstID: 30000}, []Step{
			snStep(snref.Connect("cl", 30, false, true)),
			{Kind: "stall"},
			snStep(snref.Publish(2, snref.ShortID("ab"), 0, 0, false, false, bytes.Repeat([]byte("x"), 1500))),
			snStep(snref.Publish(2, snref.ShortID("ab"), 0, 0, false, false, bytes.Repeat([]byte("y"), 1500))),
			snStep(snref.Publish(2, snref.ShortID("ab"), 0, 0, false, false, bytes.Repeat([]byte("z"), 1500))),
			advStep(time.Second),
		}},
		{"half-open-connect", gw(true), PeerOpts{NoWillReply: true}, world.BrokerCfg{FirstID: 30000}, []Step{
			snStep(snref.Connect("cl", 30, true, true)),
			advStep(time.Second),
			snStep(snref.AuthPlain("u", []byte("p"))),
			advStep(time.Second),
		}},
	}
}

var termCauses = []string{"shutdown", "client-disconnect", "broker-close", "broker-reset", "broker-garbage", "broker-illegal", "sn-garbage", "sn-short", "illegal-packet"}

type termCase struct {
	h     int
	cut   int // cause occurs after `cut` steps
	cause string
}

func termCases() []termCase {
	var out []termCase
	for hi, h := range baseHistories() {
		for cut := 0; cut <= len(h.steps); cut++ {
			for _, cz := range termCauses {
				if h.name == "stalled-broker" && cut >= 3 && cz != "shutdown" && cz != "broker-close" && cz != "broker-reset" {
					// the session's MQTT-SN loop is blocked writing to the broker: it cannot
					// see client packets at all; only shutdown and a broker close reach it
					continue
				}
				if h.name == "stalled-broker" && (cz == "broker-garbage" || cz == "broker-illegal") && cut >= 2 {
					continue // a broker which does not read is still allowed to write, but keep the history simple
				}
				out = append(out, termCase{hi, cut, cz})
			}
		}
	}
	return out
}

func causeSteps(cause string) []Step {
	switch cause {
	case "client-disconnect":
		return []Step{{Kind: "note-cause", Cause: cause}, snStep(snref.Disconnect())}
	case "illegal-packet":
		// a packet type the gateway does not handle (a SUBACK from a client)
		return []Step{{Kind: "note-cause", Cause: cause}, snStep(snref.Suback(1, 1, 0, 0))}
	}
	return []Step{causeStep(cause)}
}

// wlTermination runs base history prefix + cause, then lets virtual time pass beyond every armed timer.
var wlTermination = Workload{
	Name: "termination",
	N:    func(r *rt.Run) int { return len(termCases()) },
	Run: func(t *testing.T, c *rt.Case, i int, rng *rand.Rand) *GWRun {
		tc := termCases()[i]
		h := baseHistories()[tc.h]
		steps := append([]Step{}, h.steps[:tc.cut]...)
		steps = append(steps, causeSteps(tc.cause)...)
		po := h.po
		po.LongForm = longFormOf(i)
		g := runScript(t, c, h.cfg, h.bcfg, po, steps, 130*time.Second, nil)
		g.Desc = fmt.Sprintf("%s/cut=%d/%s", h.name, tc.cut, tc.cause)
		g.Extra = map[string]interface{}{"cause": tc.cause, "history": h.name, "cut": tc.cut}
		return g
	},
}

// ---- send faults: a gateway->client datagram write fails somewhere in the history, then a termination cause ----

type faultCase struct {
	h      int
	cut    int  // the fault is armed after `cut` steps
	all    bool // every later write fails / only the next one
	cause  string
	broker bool // the failing writes are those on the broker connection
}

func faultCases() []faultCase {
	var out []faultCase
	for hi, h := range baseHistories() {
		if h.name == "stalled-broker" {
			continue
		}
		for cut := 0; cut < len(h.steps); cut++ {
			for _, all := range []bool{false, true} {
				for _, cz := range []string{"shutdown", "broker-close", "client-disconnect"} {
					out = append(out, faultCase{hi, cut, all, cz, false})
				}
				for _, cz := range []string{"shutdown", "client-disconnect"} {
					out = append(out, faultCase{hi, cut, all, cz, true})
				}
			}
		}
	}
	return out
}

// wlSendFault: whole base history with a failing send armed at one point, two more seconds, then the cause.
var wlSendFault = Workload{
	Name: "send-fault",
	N:    func(r *rt.Run) int { return len(faultCases()) },
	Run: func(t *testing.T, c *rt.Case, i int, rng *rand.Rand) *GWRun {
		fc := faultCases()[i]
		h := baseHistories()[fc.h]
		steps := append([]Step{}, h.steps[:fc.cut]...)
		f := Step{Kind: "fail-sends"}
		if fc.broker {
			f.Kind = "fail-broker-writes"
		}
		if fc.all {
			f.D = 1
		}
		steps = append(steps, f)
		steps = append(steps, h.steps[fc.cut:]...)
		steps = append(steps, advStep(2*time.Second))
		steps = append(steps, causeSteps(fc.cause)...)
		g := runScript(t, c, h.cfg, h.bcfg, h.po, steps, 130*time.Second, nil)
		g.Desc = fmt.Sprintf("%s/send-fault@%d/all=%v/broker=%v/%s", h.name, fc.cut, fc.all, fc.broker, fc.cause)
		g.Extra = map[string]interface{}{"cause": fc.cause, "history": h.name, "cut": fc.cut, "send_fault": true}
		return g
	},
}

// wlExhaustion drives the topic-ID space to exhaustion with SUBSCRIBEs.
var wlExhaustion = Workload{
	Name: "exhaustion",
	N:    func(r *rt.Run) int { return r.N(3, 8) },
	Run: func(t *testing.T, c *rt.Case, i int, rng *rand.Rand) *GWRun {
		// Layouts 0-2 predefine most of the ID space (the free IDs are few and scattered), so that
		// exhaustion is reached after a few thousand allocations: topic lookup in the gateway is
		// linear in the number of registered topics, a full 65534-allocation run costs minutes.
		// Layouts 3-7 (thorough tier) exhaust the whole space.
		dense := func(client string, free func(id int) bool) map[uint16]string {
			m := map[uint16]string{}
			for id := 1; id <= 0xFFFE; id++ {
				if !free(id) {
					m[uint16(id)] = fmt.Sprintf("pre/%s/%d", client, id)
				}
			}
			return m
		}
		pres := []func() topics.PredefinedTopics{
			func() topics.PredefinedTopics {
				return topics.PredefinedTopics{"*": dense("any", func(id int) bool { return id%16 == 0 || id > 65500 })}
			},
			func() topics.PredefinedTopics {
				return topics.PredefinedTopics{"*": dense("any", func(id int) bool { return id > 61000 }), "cl": dense("cl", func(id int) bool { return id <= 61000 || id > 63000 })}
			},
			func() topics.PredefinedTopics {
				return topics.PredefinedTopics{"cl": dense("cl", func(id int) bool { return id < 2000 || id == 0xFFFE }), "other": {5: "not/visible"}}
			},
			func() topics.PredefinedTopics { return topics.PredefinedTopics{"*": {1: "pre/one", 2: "pre/two", 3: "pre/three"}} },
			func() topics.PredefinedTopics {
				return topics.PredefinedTopics{"cl": {65534: "pre/last", 1: "pre/first"}, "*": {300: "pre/mid"}}
			},
			func() topics.PredefinedTopics { return topics.PredefinedTopics{} },
			func() topics.PredefinedTopics {
				return topics.PredefinedTopics{"*": {65533: "pre/a"}, "cl": {65532: "pre/b", 2: "pre/c"}}
			},
			func() topics.PredefinedTopics { return topics.PredefinedTopics{"other": {1: "not/visible"}} },
		}
		pre := pres[i%len(pres)]()
		cfg := world.GWConfig{Predefined: pre, RetryDelay: 10 * time.Second, RetryCount: 1}
		bcfg := world.BrokerCfg{FirstID: 40000}
		g := &GWRun{Cfg: cfg, BCfg: bcfg, NSess: 1}
		bubble(t, func() {
			w := world.New(cfg)
			b := world.NewBroker(bcfg)
			s := w.NewSession(peerHandler(PeerOpts{}), b.Handler())
			s.SNSendP(snref.Connect("cl", 60, false, true))
			synctest.Wait()
			g.Script = append(g.Script, "CONNECT; then SUBSCRIBE n/<k> (QoS 0) until the gateway refuses; message IDs cycle 1..60000")
			mid := uint16(0)
			nextMid := func() uint16 {
				mid++
				if mid > 60000 {
					mid = 1
				}
				return mid
			}
			n := 0
			nfree := 0
			refPre := toPredef(pre)
			for id := 1; id <= 0xFFFE; id++ {
				if !refPre.Visible("cl", uint16(id)) {
					nfree++
				}
			}
			for k := 0; k < 66000 && k < nfree+80; k++ {
				s.SNSendP(snref.SubscribeName(nextMid(), 0, fmt.Sprintf("n/%d", k)))
				n++
				if k%4096 == 4095 {
					synctest.Wait()
				}
				// lock-step near the end of the free IDs: on the wire a refusal (sent at once) would
				// otherwise overtake the SUBACK of the last accepted allocation (sent after the broker's SUBACK)
				if k > nfree-40 || k%256 == 255 {
					synctest.Wait()
					// stop as soon as one refusal was seen
					evs := w.Tr.Events()
					last := evs[len(evs)-1]
					if p, _ := snref.ParseLoose(last.B); last.Kind == world.SNOut && p != nil && p.Type == snref.SUBACK && p.RC != 0 {
						break
					}
				}
			}
			synctest.Wait()
			g.Script = append(g.Script, fmt.Sprintf("%d SUBSCRIBEs sent; now 60 mixed events after exhaustion", n))
			for k := 0; k < 60; k++ {
				switch rng.Intn(5) {
				case 0:
					s.SNSendP(snref.Register(0, nextMid(), fmt.Sprintf("fresh/r%d", k)))
				case 1:
					s.SNSendP(snref.SubscribeName(nextMid(), 1, fmt.Sprintf("fresh/s%d", k)))
				case 2:
					b.Publish(s, fmt.Sprintf("fresh/b%d", k), byte(rng.Intn(3)), false, []byte(fmt.Sprintf("x%d", k)))
				case 3:
					s.SNSendP(snref.Register(0, nextMid(), fmt.Sprintf("n/%d", rng.Intn(1000))))
				case 4:
					s.SNSendP(snref.SubscribeName(nextMid(), 0, fmt.Sprintf("n/%d", rng.Intn(1000))))
				}
				synctest.Wait()
				if s.Ended() {
					break
				}
			}
			time.Sleep(time.Second)
			w.Tr.Add(0, world.Note, nil, "teardown")
			w.Finish()
			synctest.Wait()
			g.Evs = w.Tr.Events()
			handleLeaks(c, g)
			w.WaitHarness()
		})
		g.Desc = fmt.Sprintf("exhaustion layout %d seed-variant %d", i%len(pres), rng.Intn(1000))
		g.Items, g.RestOut = g.Session(0)
		// keep the witness small
		if len(g.Evs) > 400 {
			g.Evs = append(append([]world.Ev{}, g.Evs[:40]...), g.Evs[len(g.Evs)-300:]...)
		}
		return g
	},
}

func TestC11(t *testing.T) {
	r := rt.Start(t, "C11")
	runWorkloads(t, r, []Workload{wlSleep, wlSleepRacy, wlSleepInflight}, func(g *GWRun) ([]monitors.V, int) {
		return monitors.C11(g.Items, toPredef(g.Cfg.Predefined))
	})
	r.Finish("workload sleep: CONNECT, SUBSCRIBE '#', then 1-4 sleep cycles (sleep durations {KA/2, KA-1, KA, KA+1, 2KA, 10KA}, keep-alive {5,10,60}) with 0-3 broker publishes (QoS 0-2; short, predefined, registered and new topics; unique payloads) at random instants inside each window, wake-up by PINGREQ, optionally a publish right after the wake-up, optionally CONNECT back to active; lock-step. Workload sleep-racy: the same with the publish injected at the same virtual instant as the sleep DISCONNECT or the PINGREQ without waiting for quiescence (the two receive loops race), repeated. Workload sleep-inflight: the client falls asleep while 1-2 exchanges it started (PINGREQ, PUBLISH QoS 1/2, SUBSCRIBE, UNSUBSCRIBE) still wait for the broker, whose answers arrive 1 s later, inside the sleep window; then wake-ups and CONNECT. Oracle from the wire: (a) no datagram to the client inside a sleep window (from the gateway's DISCONNECT ack, and again from each wake-up's PINGRESP, until the next PINGREQ/CONNECT/DISCONNECT); (b) every broker message that arrived while asleep is delivered exactly once (DUP retransmissions aside) within the next wake-up (two when a REGISTER round trip is needed), messages that need no registration in broker order; (c) every acknowledgement (PUBACK/PUBREC/PUBCOMP/SUBACK/UNSUBACK) that arrived from the broker while asleep is delivered by the next wake-up. Non-trivial = at least one window or buffered message was checked.", nil)
}

// wlSleepRacy: broker publishes injected at the very instant of the sleep DISCONNECT / the waking PINGREQ.
var wlSleepRacy = Workload{
	Name: "sleep-racy",
	N:    func(r *rt.Run) int { return r.N(1500, 30000) },
	Run: func(t *testing.T, c *rt.Case, i int, rng *rand.Rand) *GWRun {
		ka := uint16(10)
		steps := []Step{snStep(snref.Connect("cl", ka, false, true)), snStep(snref.SubscribeName(2, 1, "#"))}
		tag := 0
		pub := func(nowait bool) Step {
			tag++
			topic := []string{"ab", "pre/one", "cd"}[rng.Intn(3)]
			s := pubStep(topic, byte(rng.Intn(3)), false, fmt.Sprintf("r%d-%d", c.I, tag))
			s.NoWait = nowait
			return s
		}
		for cy := 0; cy < 1+rng.Intn(3); cy++ {
			sl := snStep(snref.Sleep(20))
			switch rng.Intn(3) {
			case 0: // publish and sleep request at the same instant, either order
				sl.NoWait = true
				if rng.Intn(2) == 0 {
					steps = append(steps, sl, pub(false))
				} else {
					steps = append(steps, pub(true), snStep(snref.Sleep(20)))
				}
			default:
				steps = append(steps, sl)
			}
			steps = append(steps, advStep(time.Second), pub(false), advStep(time.Second))
			pr := snStep(snref.Pingreq("cl"))
			switch rng.Intn(3) {
			case 0: // publish racing with the wake-up
				if rng.Intn(2) == 0 {
					pr.NoWait = true
					steps = append(steps, pr, pub(false))
				} else {
					steps = append(steps, pub(true), pr)
				}
			case 1:
				pr.NoWait = true
				steps = append(steps, pr, pub(true), pub(false))
			default:
				steps = append(steps, pr)
			}
			steps = append(steps, advStep(time.Second))
		}
		steps = append(steps, snStep(snref.Pingreq("cl")), advStep(time.Second), snStep(snref.Pingreq("cl")), advStep(time.Second))
		return runScript(t, c, world.GWConfig{Predefined: stdPredefined(), RetryCount: 1, RetryDelay: 100 * time.Second}, world.BrokerCfg{FirstID: 30000}, PeerOpts{}, steps, 2*time.Second, nil)
	},
}
