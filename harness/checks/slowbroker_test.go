package checks

import (
	"fmt"
	"math/rand"
	"testing"
	"time"

	"verifharness/rt"
	"verifharness/snref"
	"verifharness/world"
)

// wlSlowBroker: the broker stops reading for a while and reads again later (a slow broker, not a dead
// one), while the client publishes payloads that do not fit into what is left of the broker's receive
// buffer: the gateway's write to the broker is taken partially, runs into its 100 ms deadline with the
// rest still waiting and goes on when there is room again - as a TCP connection behaves.
var wlSlowBroker = Workload{
	Name: "slow-broker",
	N:    func(r *rt.Run) int { return r.N(200, 4000) },
	Run: func(t *testing.T, c *rt.Case, i int, rng *rand.Rand) *GWRun {
		steps := []Step{snStep(snref.Connect("cl", 60, false, true))}
		room := []int{1, 7, 100, 700, 1500, 3000}[rng.Intn(6)]
		steps = append(steps, Step{Kind: "stall-partial", N: room})
		n := 1 + rng.Intn(4)
		for k := 0; k < n; k++ {
			size := []int{10, 300, 1000, 2500, 6000}[rng.Intn(5)]
			pl := make([]byte, size)
			for j := range pl {
				pl[j] = byte('a' + (k+j)%26)
			}
			copy(pl, fmt.Sprintf("sb%d-%d|", i, k))
			p := snref.Publish(2, snref.ShortID("ab"), 0, 0, false, false, pl)
			steps = append(steps, snStep(p))
		}
		steps = append(steps, advStep(time.Duration(50+rng.Intn(400))*time.Millisecond), Step{Kind: "resume"}, advStep(2*time.Second))
		steps = append(steps, snStep(snref.Publish(2, snref.ShortID("ab"), 0, 0, false, false, []byte("after"))), advStep(time.Second))
		return runScript(t, c, world.GWConfig{Predefined: stdPredefined(), RetryCount: 1}, world.BrokerCfg{FirstID: 30000}, PeerOpts{}, steps, 2*time.Second, nil)
	},
}
