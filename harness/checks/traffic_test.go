package checks

import (
	"fmt"
	"math/rand"
	"strings"
	"sync"
	"testing"
	"testing/synctest"
	"time"

	"github.com/energomonitor/bisquitt/topics"

	"verifharness/memnet"
	"verifharness/monitors"
	"verifharness/rt"
	"verifharness/snref"
	"verifharness/world"
)

func toPredef(p topics.PredefinedTopics) monitors.Predef {
	out := monitors.Predef{}
	for c, m := range p {
		out[c] = map[uint16]string{}
		for id, n := range m {
			out[c][id] = n
		}
	}
	return out
}

// trafficOpts selects what the adaptive traffic generator emphasises.
type trafficOpts struct {
	Steps        int
	Names        []string // topic-name alphabet
	ClientID     string
	Predef       topics.PredefinedTopics
	BrokerPub    bool // broker publishes
	ClientPub    bool
	Subs         bool
	Hostile      bool // unknown IDs, reserved types, wildcard registrations, QoS 3 subscriptions, message ID 0 ...
	GrantPolicy  int  // 0 as requested, 1 random 0..2, 2 sometimes 0x80
	EndDisconnect bool
	Will         bool
	BigPayloads  bool
	Overlap      bool // exchanges overlap: the client pipelines 2-4 packets, the broker answers 0/1 ms/1 s late
}

var defaultNames = []string{"a/b", "a/c", "x", "ab", "cd", "pre/one", "pre/two", "pre/cl3", "pre/three", "long/topic/name/with/levels", "a/b/c",
	"\u010d\u017e" /* 2 characters, 4 bytes */, "\u20aca" /* 2 characters, 4 bytes */, "\u00e9" /* 1 character, 2 bytes: a legal short name */, "r/1", "r/2"}

func trafficPredef(rng *rand.Rand) topics.PredefinedTopics {
	switch rng.Intn(4) {
	case 0:
		return stdPredefined()
	case 1:
		return topics.PredefinedTopics{"*": {1: "pre/one", 2: "pre/two", 3: "pre/three"}}
	case 2:
		return topics.PredefinedTopics{"cl": {1: "pre/cl3", 5: "pre/one"}, "*": {1: "pre/one", 2: "pre/two"}, "other": {4: "a/b"}}
	}
	p := topics.PredefinedTopics{}
	for i := 0; i < rng.Intn(6); i++ {
		p.Add([]string{"*", "cl", "other"}[rng.Intn(3)], defaultNames[rng.Intn(len(defaultNames))], uint16(1+rng.Intn(6)))
	}
	return p
}

// runTraffic runs one adaptive lock-step traffic session.
func runTraffic(t *testing.T, c *rt.Case, rng *rand.Rand, o trafficOpts) *GWRun {
	cfg := world.GWConfig{Predefined: o.Predef, RetryDelay: 10 * time.Second, RetryCount: 2}
	grant := func(f string, req byte) byte {
		switch o.GrantPolicy {
		case 1:
			return byte(rng.Intn(3))
		case 2:
			if rng.Intn(4) == 0 {
				return 0x80
			}
			return byte(rng.Intn(3))
		}
		return req
	}
	bcfg := world.BrokerCfg{FirstID: 30000, SubGrant: grant}
	if o.Overlap {
		bcfg.AckDelay = []time.Duration{0, time.Millisecond, time.Second}[rng.Intn(3)]
		bcfg.PingrespDelay = bcfg.AckDelay
		// the broker's packet identifiers run through the same small numbers as the client's message IDs
		bcfg.FirstID = uint16([]int{30000, 2, 3, 5}[rng.Intn(4)])
	}
	g := &GWRun{Cfg: cfg, BCfg: bcfg, NSess: 1}
	pre := toPredef(o.Predef)
	bubble(t, func() {
		w := world.New(cfg)
		b := world.NewBroker(bcfg)
		// the client refuses the first REGISTER of the names r/1 and r/2 (e.g. out of memory), accepts later ones
		var refusedOnce sync.Map
		po := PeerOpts{WillTopic: "w/t", WillQoS: 1, WillMsg: []byte("bye"), RejectRegister: func(name string) bool {
			if name != "r/1" && name != "r/2" {
				return false
			}
			_, seen := refusedOnce.LoadOrStore(name, true)
			return !seen
		}}
		s := w.NewSession(peerHandler(po), b.Handler())
		synctest.Wait()
		model := monitors.NewTopicModel(pre)
		fed := 0
		sync := func() {
			synctest.Wait()
			evs := w.Tr.Events()
			items, _, _ := monitors.Decode(evs, 0)
			for ; fed < len(items); fed++ {
				model.Feed(items[fed])
			}
		}
		say := func(f string, a ...interface{}) { g.Script = append(g.Script, fmt.Sprintf(f, a...)) }
		pipelined := 0
		send := func(p *snref.Pkt) {
			if o.Overlap && pipelined > 0 && (model.Risky(p) || p.Type == snref.DISCONNECT || p.Type == snref.CONNECT) {
				// a packet that may end the session is sent only when everything before it has been handled
				pipelined = 0
				sync()
			}
			say("client sends %s", p)
			s.SNSendP(p)
			// a packet that may end the session (or any packet whose IDs the model cannot vouch for yet)
			// is never followed by a pipelined one: what comes after a session's end is not traffic
			if o.Overlap && pipelined < 3 && rng.Intn(2) == 0 && !model.Risky(p) && p.Type != snref.DISCONNECT && p.Type != snref.CONNECT {
				// no quiescence: the next packet follows while this one is still being handled
				pipelined++
				g.Script[len(g.Script)-1] += " (pipelined)"
				return
			}
			pipelined = 0
			sync()
			if o.Overlap && rng.Intn(4) == 0 {
				d := []time.Duration{time.Millisecond, 500 * time.Millisecond, time.Second}[rng.Intn(3)]
				say("advance %v", d)
				time.Sleep(d)
				sync()
			}
		}
		send(snref.Connect(o.ClientID, uint16(10+rng.Intn(100)), o.Will, rng.Intn(2) == 0))
		mid := uint16(1)
		nextMid := func() uint16 {
			if o.Hostile && rng.Intn(12) == 0 {
				return []uint16{0, 0xFFFF, 30000}[rng.Intn(3)]
			}
			mid++
			return mid
		}
		tag := 0
		payload := func() []byte {
			tag++
			p := []byte(fmt.Sprintf("c%d-%d|", c.I, tag))
			if o.BigPayloads || rng.Intn(6) == 0 {
				sizes := []int{0, 1, 2, 246, 247, 248, 249, 250, 251, 252, 1000, 7168}
				n := sizes[rng.Intn(len(sizes))]
				if n < len(p) {
					if n == 0 && rng.Intn(3) == 0 && !o.Overlap {
						return nil // (overlapping traffic is matched by payload tag: never empty there)
					}
					return p
				}
				p = append(p, []byte(strings.Repeat("x", n-len(p)))...)
			}
			return p
		}
		pickName := func() string { return o.Names[rng.Intn(len(o.Names))] }
		pickID := func() (uint8, uint16) {
			r := rng.Intn(10)
			def := model.Definite()
			if rej := model.Rejected(); len(rej) > 0 && r == 9 {
				for id := range rej {
					return 0, id
				}
			}
			switch {
			case r < 4 && len(def) > 0:
				var ids []uint16
				for id := range def {
					ids = append(ids, id)
				}
				// deterministic order for reproducibility
				for i := 1; i < len(ids); i++ {
					for j := i; j > 0 && ids[j] < ids[j-1]; j-- {
						ids[j], ids[j-1] = ids[j-1], ids[j]
					}
				}
				return 0, ids[rng.Intn(len(ids))]
			case r < 6:
				return 1, uint16(1 + rng.Intn(6))
			case r < 8:
				n := []string{"ab", "cd", "zz", "a/", "\u00e9"}[rng.Intn(5)]
				return 2, snref.ShortID(n)
			case o.Hostile && rng.Intn(3) == 0:
				// short names with a wildcard character in them
				return 2, snref.ShortID([]string{"a+", "#b", "+#", "/+"}[rng.Intn(4)])
			case o.Hostile:
				return uint8(rng.Intn(4)), []uint16{0, 0xFFFF, 77, 1, 2}[rng.Intn(5)]
			}
			return 2, snref.ShortID("ab")
		}
		var lastQ2 []uint16
		for i := 0; i < o.Steps && !s.Ended(); i++ {
			switch rng.Intn(10) {
			case 0, 1:
				n := pickName()
				if o.Hostile && rng.Intn(5) == 0 {
					n = []string{"a/#", "+", "a/+/c", "nul\x00name", "room+1/temp", "x#", "a/b#c"}[rng.Intn(7)]
				}
				send(snref.Register(0, nextMid(), n))
			case 2, 3:
				if !o.Subs {
					continue
				}
				q := uint8(rng.Intn(3))
				if o.Hostile && rng.Intn(8) == 0 {
					q = 3
				}
				switch rng.Intn(5) {
				case 0:
					send(snref.SubscribeName(nextMid(), q, []string{"a/#", "+/b", "#", "a/+"}[rng.Intn(4)]))
				case 1:
					send(snref.SubscribeID(nextMid(), q, 2, snref.ShortID([]string{"ab", "cd", "\u00e9", "a/"}[rng.Intn(4)])))
				case 2:
					send(snref.SubscribeID(nextMid(), q, 1, uint16(1+rng.Intn(4))))
				default:
					send(snref.SubscribeName(nextMid(), q, pickName()))
				}
			case 4:
				if !o.Subs {
					continue
				}
				switch rng.Intn(3) {
				case 0:
					send(snref.UnsubscribeName(nextMid(), pickName()))
				case 1:
					send(snref.UnsubscribeID(nextMid(), 2, snref.ShortID([]string{"ab", "\u00e9"}[rng.Intn(2)])))
				default:
					send(snref.UnsubscribeID(nextMid(), 1, uint16(1+rng.Intn(3))))
				}
			case 5, 6, 7:
				if !o.ClientPub {
					continue
				}
				tit, tid := pickID()
				q := uint8(rng.Intn(4))
				m := nextMid()
				if q == 0 || q == 3 {
					if rng.Intn(2) == 0 {
						m = 0
					}
				}
				p := snref.Publish(tit, tid, m, q, rng.Intn(6) == 0, rng.Intn(3) == 0, payload())
				send(p)
				if q == 2 {
					lastQ2 = append(lastQ2, m)
				}
			case 8:
				if len(lastQ2) > 0 && rng.Intn(2) == 0 {
					send(snref.MsgOnly(snref.PUBREL, lastQ2[0]))
					lastQ2 = lastQ2[1:]
				} else {
					send(snref.Pingreq(""))
				}
			case 9:
				if !o.BrokerPub {
					continue
				}
				n := pickName()
				q := byte(rng.Intn(3))
				pl := payload()
				if len(pl) == 0 {
					pl = []byte(fmt.Sprintf("c%d-%d|", c.I, tag))
				}
				say("broker publishes topic=%q qos=%d payload=%q", n, q, cut(pl, 16))
				b.Publish(s, n, q, rng.Intn(4) == 0, pl)
				sync()
			}
		}
		if o.Overlap {
			// let the late answers arrive before the session is ended
			time.Sleep(3 * time.Second)
			sync()
		}
		if o.EndDisconnect && !s.Ended() {
			if rng.Intn(4) == 0 {
				// the client is gone right after its DISCONNECT: the gateway's reply cannot be written
				say("every later gateway->client write fails")
				s.SetPlan(func(dir string, p *snref.Pkt, n int) memnet.Action {
					if dir == world.SNOut {
						return memnet.Fail
					}
					return memnet.Pass
				})
			}
			send(snref.Disconnect())
		}
		time.Sleep(time.Second)
		synctest.Wait()
		w.Tr.Add(0, world.Note, nil, "teardown")
		w.Finish()
		synctest.Wait()
		g.Evs = w.Tr.Events()
		handleLeaks(c, g)
		w.WaitHarness()
	})
	g.Desc = strings.Join(g.Script, ";") + "|" + cfgString(o.Predef)
	g.Items, g.RestOut = g.Session(0)
	return g
}

func mkTrafficWL(name string, nq, nt int, mk func(rng *rand.Rand) trafficOpts) Workload {
	return Workload{
		Name: name,
		N:    func(r *rt.Run) int { return r.N(nq, nt) },
		Run: func(t *testing.T, c *rt.Case, i int, rng *rand.Rand) *GWRun {
			return runTraffic(t, c, rng, mk(rng))
		},
	}
}

// Well-behaved client traffic (no session-killing inputs except possibly last): for C01-C04 reference-model oracles.
var wlTrafficClean = mkTrafficWL("traffic-clean", 3000, 60000, func(rng *rand.Rand) trafficOpts {
	return trafficOpts{Steps: 6 + rng.Intn(20), Names: defaultNames, ClientID: []string{"cl", "other", "nobody"}[rng.Intn(3)], Predef: trafficPredef(rng),
		BrokerPub: true, ClientPub: true, Subs: true, GrantPolicy: rng.Intn(3), EndDisconnect: rng.Intn(2) == 0, Will: rng.Intn(4) == 0}
})

// Well-behaved traffic whose exchanges overlap (pipelined client packets, late broker answers).
var wlTrafficOverlap = mkTrafficWL("traffic-overlap", 1500, 30000, func(rng *rand.Rand) trafficOpts {
	return trafficOpts{Steps: 6 + rng.Intn(20), Names: defaultNames, ClientID: []string{"cl", "other", "nobody"}[rng.Intn(3)], Predef: trafficPredef(rng),
		BrokerPub: true, ClientPub: true, Subs: true, GrantPolicy: rng.Intn(3), EndDisconnect: rng.Intn(2) == 0, Will: rng.Intn(4) == 0, Overlap: true}
})

// wlSubscribeOverlap: 2-3 SUBSCRIBEs of one topic name (and optionally a REGISTER of it) pipelined while
// the broker answers 1 ms late, every accept/refuse combination; afterwards the client publishes
// with the topic ID it was given and the broker publishes on the name. Enumerated (36 cases).
var wlSubscribeOverlap = Workload{
	Name: "subscribe-overlap",
	N:    func(r *rt.Run) int { return 36 },
	Run: func(t *testing.T, c *rt.Case, i int, rng *rand.Rand) *GWRun {
		regPos := i % 3 // 0 no REGISTER, 1 after the first SUBSCRIBE, 2 after the last
		j := i / 3      // 0..11: k=2 -> 4 combos, k=3 -> 8 combos
		k, combo := 2, j
		if j >= 4 {
			k, combo = 3, j-4
		}
		name := "s/ov"
		cfg := world.GWConfig{Predefined: stdPredefined(), RetryDelay: 10 * time.Second, RetryCount: 1}
		nSub := 0
		bcfg := world.BrokerCfg{FirstID: 30000, AckDelay: time.Millisecond, SubGrant: func(f string, req byte) byte {
			if f != name {
				return req
			}
			refuse := combo>>(uint(nSub))&1 == 1
			nSub++
			if refuse {
				return 0x80
			}
			return req
		}}
		g := &GWRun{Cfg: cfg, BCfg: bcfg, NSess: 1}
		say := func(f string, a ...interface{}) { g.Script = append(g.Script, fmt.Sprintf(f, a...)) }
		bubble(t, func() {
			w := world.New(cfg)
			b := world.NewBroker(bcfg)
			s := w.NewSession(peerHandler(PeerOpts{}), b.Handler())
			synctest.Wait()
			send := func(p *snref.Pkt) { say("client sends %s", p); s.SNSendP(p) }
			send(snref.Connect("cl", 60, false, true))
			synctest.Wait()
			mid := uint16(1)
			for n := 0; n < k; n++ {
				mid++
				send(snref.SubscribeName(mid, 1, name)) // pipelined: no quiescence in between
				if (regPos == 1 && n == 0) || (regPos == 2 && n == k-1) {
					mid++
					send(snref.Register(0, mid, name))
				}
			}
			time.Sleep(10 * time.Millisecond)
			synctest.Wait()
			// the topic ID the client was given: by an accepted SUBACK or by REGACK
			var tid uint16
			for _, e := range w.Tr.Events() {
				if e.Kind == world.SNOut {
					if p, _ := snref.ParseLoose(e.B); p != nil && p.RC == 0 && (p.Type == snref.SUBACK || p.Type == snref.REGACK) && p.TopicID != 0 {
						tid = p.TopicID
					}
				}
			}
			if tid != 0 {
				mid++
				send(snref.Publish(0, tid, mid, 1, false, false, []byte(fmt.Sprintf("c%d-up|", c.I))))
				synctest.Wait()
			}
			if tid == 0 {
				// every request was refused: the TopicID the gateway had set aside (the first free one: 1-3 are
				// predefined) denotes nothing, a PUBLISH with it must not reach the broker (it may end the session)
				mid++
				send(snref.Publish(0, 4, mid, 0, false, false, []byte(fmt.Sprintf("c%d-probe|", c.I))))
				synctest.Wait()
			}
			say("broker publishes on %q", name)
			b.Publish(s, name, 1, false, []byte(fmt.Sprintf("c%d-down|", c.I)))
			time.Sleep(10 * time.Millisecond)
			synctest.Wait()
			send(snref.Pingreq(""))
			time.Sleep(time.Second)
			synctest.Wait()
			w.Tr.Add(0, world.Note, nil, "teardown")
			w.Finish()
			synctest.Wait()
			g.Evs = w.Tr.Events()
			handleLeaks(c, g)
			w.WaitHarness()
		})
		g.Desc = fmt.Sprintf("subscribe-overlap k=%d refuse-mask=%b register-position=%d", k, combo, regPos)
		g.Items, g.RestOut = g.Session(0)
		return g
	},
}

// wlBrokerBurst: the broker sends 2-5 PUBLISHes back to back (no quiescence in between) on a mix of new,
// repeated-new, short, predefined and already registered names while the client acknowledges
// REGISTER/PUBLISH 0 / 1 ms / 500 ms late: several gateway-initiated exchanges (REGISTER + PUBLISH) are in
// flight at once. Three bursts per session; everything must arrive (C02), under consistent IDs (C04), and
// at the end the client publishes with every TopicID it got from a REGISTER (C01: it still denotes that name).
var wlBrokerBurst = Workload{
	Name: "broker-burst",
	N:    func(r *rt.Run) int { return r.N(600, 12000) },
	Run: func(t *testing.T, c *rt.Case, i int, rng *rand.Rand) *GWRun {
		pre := trafficPredef(rng)
		cfg := world.GWConfig{Predefined: pre, RetryDelay: 10 * time.Second, RetryCount: 2}
		bcfg := world.BrokerCfg{FirstID: uint16([]int{30000, 65533, 1}[rng.Intn(3)])}
		ackDelay := []time.Duration{0, time.Millisecond, 500 * time.Millisecond}[i%3]
		// in a third of the cases the client sends every REGACK twice (a duplicated datagram / an answer to a
		// retransmission that crossed): the stale copy may arrive while the next REGISTER is outstanding
		dupRegack := []time.Duration{0, 0, time.Millisecond, 300 * time.Millisecond}[(i/3)%4]
		clientID := []string{"cl", "other"}[rng.Intn(2)]
		g := &GWRun{Cfg: cfg, BCfg: bcfg, NSess: 1}
		say := func(f string, a ...interface{}) { g.Script = append(g.Script, fmt.Sprintf(f, a...)) }
		names := []string{"n/1", "n/2", "n/3", "ab", "pre/one", "pre/two", "a/b", "n/1"}
		bubble(t, func() {
			w := world.New(cfg)
			b := world.NewBroker(bcfg)
			// the client refuses the first REGISTER of n/3 (and, sending every REGACK twice, repeats that refusal later)
			var refusedOnce sync.Map
			po := PeerOpts{AckDelay: ackDelay, DupRegack: dupRegack, RejectRegister: func(name string) bool {
				if name != "n/3" || i%2 == 0 {
					return false
				}
				_, seen := refusedOnce.LoadOrStore(name, true)
				return !seen
			}}
			s := w.NewSession(peerHandler(po), b.Handler())
			// in a quarter of the cases every packet of the broker arrives in two TCP segments 150 ms apart
			// (longer than the gateway's connection poll interval)
			if (i/12)%4 == 3 {
				s.Segment = 150 * time.Millisecond
			}
			synctest.Wait()
			send := func(p *snref.Pkt) { say("client sends %s", p); s.SNSendP(p); synctest.Wait() }
			send(snref.Connect(clientID, 60, false, true))
			send(snref.SubscribeName(2, 2, "#"))
			if rng.Intn(2) == 0 {
				send(snref.Register(0, 3, "a/b"))
			}
			time.Sleep(10 * time.Millisecond)
			synctest.Wait()
			tag := 0
			for burst := 0; burst < 3; burst++ {
				k := 1 + rng.Intn(4)
				for n := 0; n < k; n++ {
					tag++
					name, q := names[rng.Intn(len(names))], byte(rng.Intn(3))
					say("broker publishes topic=%q qos=%d (burst %d)", name, q, burst)
					b.Publish(s, name, q, rng.Intn(5) == 0, []byte(fmt.Sprintf("c%d-%d|", c.I, tag)))
				}
				d := []time.Duration{0, time.Millisecond, 600 * time.Millisecond, 3 * time.Second}[rng.Intn(4)]
				say("advance %v", d)
				time.Sleep(d)
				synctest.Wait()
			}
			time.Sleep(5 * time.Second)
			synctest.Wait()
			// the client uses every TopicID it was given by a REGISTER it accepted (C01: the ID still denotes that name)
			seen := map[uint16]bool{}
			mid := uint16(100)
			for _, e := range w.Tr.Events() {
				if e.Kind != world.SNOut {
					continue
				}
				if p, _ := snref.ParseLoose(e.B); p != nil && p.Type == snref.REGISTER && !seen[p.TopicID] {
					seen[p.TopicID] = true
					mid++
					tag++
					send(snref.Publish(0, p.TopicID, mid, uint8(rng.Intn(2)), false, false, []byte(fmt.Sprintf("c%d-up%d|", c.I, tag))))
				}
			}
			send(snref.Pingreq(""))
			time.Sleep(time.Second)
			synctest.Wait()
			w.Tr.Add(0, world.Note, nil, "teardown")
			w.Finish()
			synctest.Wait()
			g.Evs = w.Tr.Events()
			handleLeaks(c, g)
			w.WaitHarness()
		})
		g.Desc = strings.Join(g.Script, ";") + fmt.Sprintf("|ack-delay=%v|dup-regack=%v|segmented=%v|", ackDelay, dupRegack, (i/12)%4 == 3) + cfgString(pre)
		g.Items, g.RestOut = g.Session(0)
		return g
	},
}

// wlStaleRegack: deterministic timing of the case the burst workload only meets by chance. A QoS 0 message on
// a new name is registered under the gateway's message ID 65535; the client answers at once (accepting or
// refusing) and repeats that REGACK 300 ms later. 100 ms after the first message a second QoS 0 message on
// another (or the same) new name arrives, registered under 65535 again, and this time the client answers
// after 500 ms: the stale copy (other TopicID) arrives while the second REGISTER is outstanding and must
// neither confirm nor fail it.
var wlStaleRegack = Workload{
	Name: "stale-regack",
	N:    func(r *rt.Run) int { return 4 },
	Run: func(t *testing.T, c *rt.Case, i int, rng *rand.Rand) *GWRun {
		refuseFirst := i%2 == 1
		sameName := (i/2)%2 == 1
		cfg := world.GWConfig{Predefined: stdPredefined(), RetryDelay: 10 * time.Second, RetryCount: 2}
		bcfg := world.BrokerCfg{FirstID: 30000}
		g := &GWRun{Cfg: cfg, BCfg: bcfg, NSess: 1}
		say := func(f string, a ...interface{}) { g.Script = append(g.Script, fmt.Sprintf(f, a...)) }
		bubble(t, func() {
			w := world.New(cfg)
			b := world.NewBroker(bcfg)
			var s *world.Session
			nReg := 0
			s = w.NewSession(func(s *world.Session, p *snref.Pkt, raw []byte) {
				if p == nil || p.Type != snref.REGISTER {
					return
				}
				nReg++
				if nReg == 1 {
					rc := byte(0)
					if refuseFirst {
						rc = 2
					}
					s.SNSendP(snref.Regack(p.TopicID, p.MsgID, rc))
					q := snref.Regack(p.TopicID, p.MsgID, rc)
					time.AfterFunc(300*time.Millisecond, func() { s.SNSendP(q) })
					return
				}
				q := snref.Regack(p.TopicID, p.MsgID, 0)
				time.AfterFunc(500*time.Millisecond, func() { s.SNSendP(q) })
			}, b.Handler())
			synctest.Wait()
			send := func(p *snref.Pkt) { say("client sends %s", p); s.SNSendP(p); synctest.Wait() }
			send(snref.Connect("cl", 60, false, true))
			send(snref.SubscribeName(2, 0, "#"))
			say("broker publishes QoS 0 on n/first (client %s the REGISTER and repeats its REGACK 300 ms later)", map[bool]string{false: "accepts", true: "refuses"}[refuseFirst])
			b.Publish(s, "n/first", 0, false, []byte(fmt.Sprintf("c%d-1|", c.I)))
			time.Sleep(100 * time.Millisecond)
			synctest.Wait()
			second := "n/second"
			if sameName && refuseFirst {
				second = "n/first"
			}
			say("broker publishes QoS 0 on %s (client accepts the REGISTER 500 ms later)", second)
			b.Publish(s, second, 0, false, []byte(fmt.Sprintf("c%d-2|", c.I)))
			time.Sleep(2 * time.Second)
			synctest.Wait()
			send(snref.Pingreq(""))
			time.Sleep(time.Second)
			synctest.Wait()
			w.Tr.Add(0, world.Note, nil, "teardown")
			w.Finish()
			synctest.Wait()
			g.Evs = w.Tr.Events()
			handleLeaks(c, g)
			w.WaitHarness()
		})
		g.Desc = fmt.Sprintf("stale-regack refuse-first=%v same-name=%v variant=%d", refuseFirst, sameName, i)
		g.Items, g.RestOut = g.Session(0)
		return g
	},
}

// Hostile but decodable traffic.
var wlTrafficHostile = mkTrafficWL("traffic-hostile", 3000, 60000, func(rng *rand.Rand) trafficOpts {
	return trafficOpts{Steps: 4 + rng.Intn(14), Names: defaultNames, ClientID: []string{"cl", "other"}[rng.Intn(2)], Predef: trafficPredef(rng),
		BrokerPub: true, ClientPub: true, Subs: true, Hostile: true, GrantPolicy: rng.Intn(3), EndDisconnect: rng.Intn(3) == 0}
})

// Broker-publish heavy traffic with subscriptions (C02).
var wlTrafficBroker = mkTrafficWL("traffic-broker", 2000, 40000, func(rng *rand.Rand) trafficOpts {
	return trafficOpts{Steps: 8 + rng.Intn(24), Names: defaultNames, ClientID: []string{"cl", "other", "nobody"}[rng.Intn(3)], Predef: trafficPredef(rng),
		BrokerPub: true, ClientPub: rng.Intn(3) == 0, Subs: true, GrantPolicy: 1, BigPayloads: rng.Intn(5) == 0}
})

func TestC01(t *testing.T) {
	r := rt.Start(t, "C01")
	runWorkloads(t, r, []Workload{wlTrafficClean, wlTrafficHostile, wlTrafficOverlap, wlSubscribeOverlap, wlBrokerBurst}, func(g *GWRun) ([]monitors.V, int) {
		return monitors.C01(g.Items, toPredef(g.Cfg.Predefined))
	})
	r.Finish(trafficRule+" Oracle C01: in-order one-to-one match between accepted client PUBLISHes and the MQTT PUBLISHes written to the broker (topic from the reference registration model, payload, retain, DUP, QoS with -1 -> 0, message ID); a PUBLISH whose ID denotes nothing (or reserved topic-ID type 3) must not appear at the broker.", nil)
}

func TestC02(t *testing.T) {
	r := rt.Start(t, "C02")
	runWorkloads(t, r, []Workload{wlTrafficBroker, wlTrafficClean, wlSubscribeOverlap, wlTrafficOverlap, wlBrokerBurst, wlStaleRegack}, func(g *GWRun) ([]monitors.V, int) {
		return monitors.C02(g.Items, toPredef(g.Cfg.Predefined))
	})
	r.Finish(trafficRule+" Oracle C02: every broker PUBLISH injected while the client is active is delivered exactly once (DUP retransmissions aside) with the same payload/QoS/retain/message ID under a (type, ID) that the client's own knowledge - short decoding, shared predefined map, REGISTERs it accepted, SUBACK/REGACK IDs - resolves to the broker's topic.", nil)
}

func TestC03(t *testing.T) {
	r := rt.Start(t, "C03")
	runWorkloads(t, r, []Workload{wlTrafficClean, wlTrafficBroker, wlTrafficOverlap}, func(g *GWRun) ([]monitors.V, int) {
		return monitors.C03(g.Items, toPredef(g.Cfg.Predefined))
	})
	r.Finish(trafficRule+" Oracle C03: per packet type, the sequences on the two links correspond one-to-one in order with equal message IDs (SUBSCRIBE/UNSUBSCRIBE: resolved filter and requested QoS; SUBACK: accepted iff broker code 0-2, granted QoS, topic ID by filter kind).", nil)
}

const trafficRule = "workloads: adaptive lock-step sessions against the real handler in virtual time: CONNECT, then 4-32 random steps over {REGISTER, SUBSCRIBE (string/wildcard/short/predefined, QoS 0-2), UNSUBSCRIBE, PUBLISH (every DUP/QoS/retain combination; IDs drawn from confirmed registrations, predefined IDs 1-6 incl. client/'*' overlaps, short names, and - hostile variant - unknown/0/0xFFFF IDs, reserved type 3, wildcard names, QoS 3 subscriptions, message IDs 0/0xFFFF), PUBREL, PINGREQ, broker PUBLISH QoS 0-2 on short/predefined/registered/new names}, 4 predefined-map shapes x 3 client IDs, broker SUBACK policies {as requested, random 0-2, sometimes 0x80}, payload sizes {0,1,2,246..252,1000,7168}; the generator learns assigned IDs from the wire. plus (C01, C02, C04) broker bursts: 1-4 broker PUBLISHes back to back, three times, on new / repeated / short / predefined / registered names while the client acknowledges REGISTER and PUBLISH 0 / 1 ms / 500 ms late (and in a third of the cases sends every REGACK twice), finally publishing with every TopicID it was given, so that several gateway-initiated exchanges are in flight at once; the client refuses the first REGISTER of one name in half of these cases; plus 4 fixed-timing 'stale REGACK' cases (a repeated accepting / refusing REGACK of an earlier REGISTER arrives while the next REGISTER with the same message ID is outstanding). A case is non-trivial when the oracle's antecedent fired; distinct by script."
