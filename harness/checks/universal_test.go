package checks

import (
	"strings"
	"fmt"
	"math/rand"
	"testing"
	"time"

	"verifharness/monitors"
	"verifharness/mqttref"
	"verifharness/rt"
	"verifharness/snref"
	"verifharness/world"
)

// wlBigBroker: broker payloads around and beyond the transport maximum, QoS 0-2 (C23).
var wlBigBroker = Workload{
	Name: "broker-big-payloads",
	N:    func(r *rt.Run) int { return 3 * 10 },
	Run: func(t *testing.T, c *rt.Case, i int, rng *rand.Rand) *GWRun {
		sizes := []int{7168, 8170, 8182, 8183, 8184, 8185, 8192, 20000, 65526, 70000}
		size := sizes[i%len(sizes)]
		qos := byte(i / len(sizes))
		topic := []string{"ab", "pre/one", "new/topic"}[rng.Intn(3)]
		pl := make([]byte, size)
		for k := range pl {
			pl[k] = 'x'
		}
		steps := []Step{
			snStep(snref.Connect("cl", 60, false, true)),
			snStep(snref.SubscribeName(2, 2, "#")),
			{Kind: "pub", Topic: topic, QoS: qos, Payload: pl},
			advStep(time.Second),
			pubStep("ab", 0, false, "after-big"),
		}
		return runScript(t, c, world.GWConfig{Predefined: stdPredefined(), RetryCount: 1}, world.BrokerCfg{FirstID: 30000}, PeerOpts{}, steps, time.Second, nil)
	},
}

// wlConnectEdge: the CONNECT replies that are built outside the normal path (C23).
var wlConnectEdge = Workload{
	Name: "connect-edge-replies",
	N:    func(r *rt.Run) int { return 6 },
	Run: func(t *testing.T, c *rt.Case, i int, rng *rand.Rand) *GWRun {
		var steps []Step
		switch i {
		case 0:
			steps = []Step{snStep(snref.Connect("cl", 0, false, true))}
		case 1:
			steps = []Step{snStep(snref.Connect("cl", 60, false, true)), snStep(snref.Sleep(10)), snStep(snref.Pingreq("cl")), snStep(snref.Connect("cl", 60, false, true))}
		case 2:
			steps = []Step{snStep(snref.Connect("cl", 60, false, true)), snStep(snref.Sleep(10)), snStep(snref.Connect("cl", 60, false, true))}
		case 3:
			p := snref.Connect("cl", 60, false, true)
			p.ProtoID = 2
			steps = []Step{snStep(p)}
		case 4:
			steps = []Step{snStep(snref.Connect("cl", 60, true, true)), snStep(snref.Connect("cl", 0, true, true))}
		case 5:
			steps = []Step{snStep(snref.Connect("cl", 60, false, true)), snStep(snref.Connect("cl", 0, false, true)), snStep(snref.Pingreq(""))}
		}
		return runScript(t, c, world.GWConfig{Predefined: stdPredefined()}, world.BrokerCfg{}, PeerOpts{WillTopic: "w", WillMsg: []byte("m")}, steps, time.Second, nil)
	},
}

// wlFullWorld: API programs run by the real client library against the real gateway (the C26
// worlds); the universal monitors see the client library's datagrams too.
var wlFullWorld = Workload{
	Name: "client+gateway",
	N:    func(r *rt.Run) int { return r.N(400, 8000) },
	Run: func(t *testing.T, c *rt.Case, i int, rng *rand.Rand) *GWRun {
		res := c26exec(t, rng)
		g := &GWRun{Cfg: world.GWConfig{Predefined: c26Predefined()}, NSess: 1, Script: res.ps, Evs: res.evs, Extra: map[string]interface{}{"real_client": true}}
		g.Desc = "api-program|" + fmt.Sprint(res.ps)
		g.Items, g.RestOut = g.Session(0)
		return g
	},
}

func TestC23(t *testing.T) {
	r := rt.Start(t, "C23")
	wls := []Workload{wlConnectEdge, wlBigBroker, wlTrafficClean, wlTrafficHostile, wlTrafficBroker, wlConnectRandom, wlSleep, wlFullWorld}
	runWorkloads(t, r, wls, func(g *GWRun) ([]monitors.V, int) {
		vs, n := monitors.C23(g.Items, world.SNOut)
		if g.Extra != nil && g.Extra["real_client"] == true {
			// the client library is bisquitt code too: its datagrams are judged like the gateway's
			vs2, n2 := monitors.C23(g.Items, world.SNIn)
			vs, n = append(vs, vs2...), n+n2
		}
		return vs, n
	})
	r.Finish("every datagram the gateway sent to the client in the union of the workloads connect-edge-replies (zero keep-alive, bad protocol ID, CONNECT while awake/asleep), broker-big-payloads (broker payloads 7168..70000 bytes x QoS 0-2), traffic-clean/hostile/broker, connect-random and sleep is parsed by the independent spec-table parser: decodable, type valid gateway->client, Length field == size, size <= 8192. Workload client+gateway: random API programs (see C26) run by the real client library against the real gateway; there the client library's datagrams are parsed and judged in the same way (direction client->gateway). "+trafficRule, nil)
}

func TestC24(t *testing.T) {
	r := rt.Start(t, "C24")
	wls := []Workload{wlTrafficHostile, wlTrafficClean, wlConnectRandom, wlConnectExhaustive, wlSleep, wlFullWorld, wlSlowBroker}
	runWorkloads(t, r, wls, func(g *GWRun) ([]monitors.V, int) {
		return monitors.C24(g.Items, g.RestOut)
	})
	r.Finish("every MQTT packet the gateway wrote to the broker in the union of slow-broker (partial writes towards a broker that stops reading and resumes), traffic-hostile (reserved topic-ID type, QoS 3 subscriptions, wildcard/NUL names registered and published, message ID 0, DUP with QoS 0, unknown IDs), traffic-clean, connect-random/exhaustive (WILLMSG without WILLTOPIC, empty/QoS-3 will topics, credentials incl. password without user) and sleep workloads is parsed and validated by the independent MQTT 3.1.1 codec: rules R1 (QoS 0-2; PUBLISH topic non-empty without wildcards; filters non-empty; will flag iff non-empty will topic) and R2 (reserved header flags, remaining length, protocol name/level, connect flag consistency, non-zero packet identifiers, no DUP with QoS 0, no trailing bytes). Sequence-level rules are not judged. "+trafficRule, nil)
}

func TestC14(t *testing.T) {
	r := rt.Start(t, "C14")
	wls := []Workload{wlTermination, wlSleep, wlTrafficClean, wlConnectRandom}
	runWorkloads(t, r, wls, func(g *GWRun) ([]monitors.V, int) {
		vs, n := monitors.C14(g.Items)
		// every run that ended contributes one checked ending
		if _, ok := monitors.EndTime(g.Items); ok {
			n++
		}
		return vs, n
	})
	r.Finish("every session ending in the union of the termination workload (all causes x every step of the base histories, see C13), sleep, traffic-clean and connect-random workloads: each MQTT DISCONNECT written to the broker must be matched, in order, by an earlier plain DISCONNECT (no duration or duration 0) received from the client. Non-trivial = the session ended or an MQTT DISCONNECT was seen.", nil)
}

func TestC04(t *testing.T) {
	r := rt.Start(t, "C04")
	wls := []Workload{wlExhaustion, wlTrafficClean, wlTrafficBroker, wlBrokerBurst}
	runWorkloads(t, r, wls, func(g *GWRun) ([]monitors.V, int) {
		vs, n := monitors.C04(g.Items, toPredef(g.Cfg.Predefined))
		// "never later denotes a different topic name" is also observable from the other side: a client PUBLISH
		// with a TopicID the gateway handed out must be forwarded under the name it was handed out for
		c01, _ := monitors.C01(g.Items, toPredef(g.Cfg.Predefined))
		for _, v := range c01 {
			if strings.HasPrefix(v.Sig, "forward-differs|topic|tit=0") {
				vs = append(vs, monitors.V{Prop: "C04", Sig: "handed-out-id-denotes-other-name|" + v.Sig, What: "a TopicID the gateway handed out denotes another name now: " + v.What, Seq: v.Seq})
			}
		}
		return vs, n
	})
	r.Finish("workload exhaustion: one session per predefined layout drives 65534 - |predefined| allocations with non-wildcard SUBSCRIBEs (lock-step every 4096), then 60 further REGISTER / SUBSCRIBE / broker-PUBLISH events of new names interleaved with re-registrations of old names; plus traffic-clean/broker and broker-burst. Oracle C04: the relation id -> name over everything the gateway handed out (REGACK, SUBACK, its own REGISTER) is a function, ids in 1..0xFFFE, never a predefined ID visible to the client, and once an allocation was refused every later new name is refused too; a client PUBLISH with a handed-out (registered-type) TopicID is forwarded under the name the ID was handed out for. "+trafficRule, nil)
}

var _ = mqttref.CONNECT
