// Package memnet provides in-memory net.Conn pairs with datagram or stream
// semantics, read/write deadlines, capture of every accepted write and
// per-datagram fault injection. All blocking uses channels and timers so that
// inside a testing/synctest bubble a blocked Read is durably blocked.
package memnet

import (
	"io"
	"net"
	"os"
	"sync"
	"time"
)

// Action is what a fault plan does with one datagram.
type Action int

const (
	Pass Action = iota
	Drop
	Dup
	Fail // the Write returns an error (EMSGSIZE-like); nothing is delivered
)

// Tap is called for every write accepted by an end, before delivery, under
// the link's lock (so calls are totally ordered). It returns what to do with
// the datagram (ignored for stream links).
type Tap func(from *End, b []byte) Action

type addr string

func (a addr) Network() string { return "mem" }
func (a addr) String() string  { return string(a) }

// End is one end of a link; it implements net.Conn.
type End struct {
	Name   string
	link   *Link
	peer   *End
	stream bool

	mu       sync.Mutex
	q        [][]byte // datagrams, or stream chunks
	closed   bool     // this end was closed locally
	peerGone bool     // peer closed (stream: EOF after q drained)
	notify   chan struct{}
	rdl      time.Time
	wdl      time.Time     // write deadline (used only by bounded stream links)
	space    chan struct{} // signalled when this end's queue shrinks (bounded stream links)

	readErr error // every later Read fails with it (connection reset), see ResetByPeer

	// PreWrite, when set (before the end is used), is called at the start of every Write of this end.
	PreWrite func(b []byte)
}

// Link is a pair of ends.
type Link struct {
	A, B    *End
	mu      sync.Mutex
	tap     Tap
	partial bool // stream links: see SetPartialWrites
	cap     int  // stream links: max bytes queued at a receiving end (0 = unbounded); see SetCapacity
}

func newLink(nameA, nameB string, stream bool) *Link {
	l := &Link{}
	l.A = &End{Name: nameA, link: l, stream: stream, notify: make(chan struct{}, 1), space: make(chan struct{}, 1)}
	l.B = &End{Name: nameB, link: l, stream: stream, notify: make(chan struct{}, 1), space: make(chan struct{}, 1)}
	l.A.peer, l.B.peer = l.B, l.A
	return l
}

// NewPacketLink returns a link on which one Write is one Read (UDP-like,
// unbounded queue, never blocks the sender).
func NewPacketLink(nameA, nameB string) *Link { return newLink(nameA, nameB, false) }

// NewStreamLink returns a link with byte-stream semantics and EOF on close (TCP-like).
func NewStreamLink(nameA, nameB string) *Link { return newLink(nameA, nameB, true) }

// SetCapacity bounds the bytes a stream link queues at a receiving end: like a
// TCP connection whose peer does not read, Write then blocks until the reader
// drains the queue or the write deadline expires (timeout error).
func (l *Link) SetCapacity(n int) { l.mu.Lock(); l.cap = n; l.mu.Unlock() }

// SetPartialWrites makes a bounded stream link take what fits into the remaining room at once (partial
// write); a write deadline that expires while the rest is waiting returns (bytes taken, ErrTimeout),
// as net.TCPConn.Write does.
func (l *Link) SetPartialWrites(on bool) { l.mu.Lock(); l.partial = on; l.mu.Unlock() }

func (e *End) queued() int {
	n := 0
	for _, d := range e.q {
		n += len(d)
	}
	return n
}

// SetTap installs the capture/fault function.
func (l *Link) SetTap(t Tap) { l.mu.Lock(); l.tap = t; l.mu.Unlock() }

func (e *End) wake() {
	select {
	case e.notify <- struct{}{}:
	default:
	}
}

type timeoutErr struct{}

func (timeoutErr) Error() string   { return "i/o timeout" }
func (timeoutErr) Timeout() bool   { return true }
func (timeoutErr) Temporary() bool { return true }

var _ net.Error = timeoutErr{}

// ErrSend is what a Write returns when the tap answers Fail.
var ErrSend error = &net.OpError{Op: "write", Net: "mem", Err: os.NewSyscallError("sendto", errMsgSize{})}

type errMsgSize struct{}

func (errMsgSize) Error() string { return "message too long" }

// ErrTimeout is what a Read returns at its deadline; it also satisfies os.ErrDeadlineExceeded checks loosely.
var ErrTimeout error = timeoutErr{}

func (e *End) Read(p []byte) (int, error) {
	for {
		e.mu.Lock()
		if e.closed {
			e.mu.Unlock()
			return 0, net.ErrClosed
		}
		if e.readErr != nil {
			err := e.readErr
			e.mu.Unlock()
			return 0, err
		}
		if len(e.q) > 0 {
			d := e.q[0]
			n := copy(p, d)
			if e.stream && n < len(d) {
				e.q[0] = d[n:]
			} else {
				e.q = e.q[1:]
			}
			if len(e.q) > 0 {
				e.wake()
			}
			select {
			case e.space <- struct{}{}:
			default:
			}
			e.mu.Unlock()
			return n, nil
		}
		if e.peerGone && e.stream {
			e.mu.Unlock()
			return 0, io.EOF
		}
		dl := e.rdl
		e.mu.Unlock()
		if dl.IsZero() {
			<-e.notify
			continue
		}
		d := time.Until(dl)
		if d <= 0 {
			return 0, ErrTimeout
		}
		t := time.NewTimer(d)
		select {
		case <-e.notify:
			t.Stop()
		case <-t.C:
			return 0, ErrTimeout
		}
	}
}

func (e *End) Write(p []byte) (int, error) {
	e.mu.Lock()
	closed := e.closed
	e.mu.Unlock()
	if closed {
		return 0, net.ErrClosed
	}
	b := append([]byte(nil), p...)
	l := e.link
	if e.PreWrite != nil {
		// a slow interface: the datagram leaves (and is captured) only after this returns; no lock is held
		e.PreWrite(b)
	}
	// bounded stream link: wait for room at the receiving end
	written := 0
	for e.stream {
		l.mu.Lock()
		capacity := l.cap
		partial := l.partial
		l.mu.Unlock()
		if capacity <= 0 {
			break
		}
		peer := e.peer
		peer.mu.Lock()
		room := capacity - peer.queued()
		full := !peer.closed && room <= 0
		peer.mu.Unlock()
		if !full && !(partial && room < len(b)) {
			break
		}
		if !full {
			// partial-write mode (as a TCP socket behaves): what fits into the buffer is taken now, the writer
			// waits with the rest and a deadline that expires meanwhile reports the bytes already taken
			chunk := b[:room]
			b = b[room:]
			written += room
			l.mu.Lock()
			if l.tap != nil {
				l.tap(e, chunk)
			}
			peer.mu.Lock()
			if !peer.closed {
				peer.q = append(peer.q, append([]byte(nil), chunk...))
				peer.wake()
			}
			peer.mu.Unlock()
			l.mu.Unlock()
			continue
		}
		e.mu.Lock()
		dl, closed := e.wdl, e.closed
		e.mu.Unlock()
		if closed {
			return 0, net.ErrClosed
		}
		if dl.IsZero() {
			<-peer.space
			continue
		}
		d := time.Until(dl)
		if d <= 0 {
			return written, ErrTimeout
		}
		t := time.NewTimer(d)
		select {
		case <-peer.space:
			t.Stop()
		case <-t.C:
			return written, ErrTimeout
		}
	}
	l.mu.Lock()
	act := Pass
	if l.tap != nil {
		act = l.tap(e, b)
	}
	peer := e.peer
	peer.mu.Lock()
	gone := peer.closed
	if !gone {
		switch {
		case act == Fail:
		case e.stream || act == Pass:
			peer.q = append(peer.q, b)
		case act == Dup:
			peer.q = append(peer.q, b, append([]byte(nil), b...))
		}
		peer.wake()
	}
	peer.mu.Unlock()
	l.mu.Unlock()
	if gone && e.stream {
		return 0, io.ErrClosedPipe
	}
	if act == Fail {
		return 0, ErrSend
	}
	return len(p), nil
}

// Inject delivers a datagram to this end as if the peer had written it,
// bypassing the tap (used to release delayed datagrams).
func (e *End) Inject(b []byte) {
	e.mu.Lock()
	if !e.closed {
		e.q = append(e.q, append([]byte(nil), b...))
		e.wake()
	}
	e.mu.Unlock()
}

func (e *End) Close() error {
	e.mu.Lock()
	if e.closed {
		e.mu.Unlock()
		return nil
	}
	e.closed = true
	e.wake()
	select {
	case e.space <- struct{}{}:
	default:
	}
	e.mu.Unlock()
	l := e.link
	l.mu.Lock()
	if l.tap != nil {
		l.tap(e, nil) // nil = close marker
	}
	l.mu.Unlock()
	p := e.peer
	p.mu.Lock()
	p.peerGone = true
	p.wake()
	p.mu.Unlock()
	return nil
}

// ResetByPeer makes every later Read of this end fail with ECONNRESET-like error (not EOF), as after a TCP RST.
func (e *End) ResetByPeer() {
	e.mu.Lock()
	e.readErr = &net.OpError{Op: "read", Net: "mem", Err: os.NewSyscallError("read", errReset{})}
	e.wake()
	e.mu.Unlock()
}

type errReset struct{}

func (errReset) Error() string { return "connection reset by peer" }

// Closed reports whether Close was called on this end.
func (e *End) Closed() bool { e.mu.Lock(); defer e.mu.Unlock(); return e.closed }

func (e *End) LocalAddr() net.Addr  { return addr(e.Name) }
func (e *End) RemoteAddr() net.Addr { return addr(e.peer.Name) }
func (e *End) SetDeadline(t time.Time) error {
	return e.SetReadDeadline(t)
}
func (e *End) SetReadDeadline(t time.Time) error {
	e.mu.Lock()
	if e.closed {
		e.mu.Unlock()
		return net.ErrClosed
	}
	e.rdl = t
	e.wake()
	e.mu.Unlock()
	return nil
}
func (e *End) SetWriteDeadline(t time.Time) error {
	e.mu.Lock()
	defer e.mu.Unlock()
	if e.closed {
		return net.ErrClosed
	}
	e.wdl = t
	return nil
}

var _ = os.ErrDeadlineExceeded
