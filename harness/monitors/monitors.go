// Package monitors holds the trace oracles: pure functions from a recorded
// world trace (and the configuration the world ran with) to violations.
package monitors

import (
	"errors"
	"bytes"
	"fmt"
	"sort"
	"strings"
	"time"

	"verifharness/mqttref"
	"verifharness/snref"
	"verifharness/world"
)

// V is one violation found by a monitor.
type V struct {
	Prop string
	Sig  string // stable signature: rule + abstract class of the trigger
	What string
	Seq  int // event the violation is anchored at
}

// Item is one decoded event of a session, in trace order.
type Item struct {
	world.Ev
	SN    *snref.Pkt // for sn> / sn< (nil when undecodable)
	SNErr error
	MQ    *mqttref.Pkt // for mq> / mq< (one Item per MQTT packet)
}

// Decode turns the raw events of one session into items. MQTT byte streams
// are reassembled per direction; a packet is placed at the event that carried
// its first byte. Undecodable stream tails are returned in restOut / restIn.
func Decode(evs []world.Ev, sess int) (items []Item, restOut, restIn []byte) {
	mqo, ro, _ := world.MQPackets(evs, sess, world.MQOut)
	mqi, ri, _ := world.MQPackets(evs, sess, world.MQIn)
	bySeq := map[int][]Item{}
	for _, m := range mqo {
		bySeq[m.Seq] = append(bySeq[m.Seq], Item{Ev: m.Ev, MQ: m.P})
	}
	for _, m := range mqi {
		bySeq[m.Seq] = append(bySeq[m.Seq], Item{Ev: m.Ev, MQ: m.P})
	}
	ended := false
	for _, e := range evs {
		if e.Sess != sess {
			continue
		}
		switch e.Kind {
		case world.End:
			ended = true
			items = append(items, Item{Ev: e})
		case world.SNIn, world.SNOut:
			p, err := snref.Parse(e.B)
			if err == nil && p != nil && p.Type == snref.CONNECT && p.ProtoID != 1 {
				// reserved protocol ID (specification 5.3.8): bisquitt's decoder rejects the datagram,
				// so for every oracle it is an undecodable one
				err = errReservedProtoID
			}
			if ended && e.Kind == world.SNIn && e.Fault == "" {
				e.Fault = "drop" // sent to a session that no longer exists: never delivered
			}
			items = append(items, Item{Ev: e, SN: p, SNErr: err})
		case world.MQIn, world.MQOut:
			items = append(items, bySeq[e.Seq]...)
		default:
			items = append(items, Item{Ev: e})
		}
	}
	return items, ro, ri
}

func (it Item) isSN(kind string, t byte) bool {
	return it.Kind == kind && it.SN != nil && it.SNErr == nil && it.SN.Type == t
}
func (it Item) isMQ(kind string, t byte) bool {
	return it.Kind == kind && it.MQ != nil && it.MQ.Type == t
}

// delivered reports whether an sn> datagram actually reached the gateway (not dropped by a fault plan).
func (it Item) delivered() bool { return it.Fault != "drop" }

func plainDisconnect(p *snref.Pkt) bool {
	return p != nil && p.Type == snref.DISCONNECT && (!p.HasDur || p.Duration == 0)
}

// ---------------------------------------------------------------- C23

// C23 checks every MQTT-SN datagram sent by the gateway (kind sn<) or, with
// fromClient, by the client library (kind sn>).
func C23(items []Item, kind string) (vs []V, checked int) {
	for _, it := range items {
		if it.Kind != kind {
			continue
		}
		checked++
		dir := "gw->client"
		valid := snref.ValidFromGateway
		if kind == world.SNIn {
			dir = "client->gw"
			valid = snref.ValidFromClient
		}
		if len(it.B) > 8192 {
			vs = append(vs, V{"C23", fmt.Sprintf("oversize|%s|%s", dir, typeOf(it.B)), fmt.Sprintf("%s datagram of %d bytes exceeds the 8192-byte transport maximum", dir, len(it.B)), it.Seq})
			continue
		}
		p, err := snref.ParseLoose(it.B)
		if p == nil || (err != nil && err != snref.ErrLength) {
			vs = append(vs, V{"C23", fmt.Sprintf("undecodable|%s|%s", dir, hexHead(it.B)), fmt.Sprintf("%s datagram does not decode: %x (%v)", dir, cut(it.B, 32), err), it.Seq})
			continue
		}
		if p.DeclLen != len(it.B) {
			vs = append(vs, V{"C23", fmt.Sprintf("length|%s|%s", dir, snref.TypeName(p.Type)), fmt.Sprintf("%s %s: Length field %d != datagram size %d", dir, snref.TypeName(p.Type), p.DeclLen, len(it.B)), it.Seq})
			continue
		}
		if p.Long != (len(it.B) > 255) {
			vs = append(vs, V{"C23", fmt.Sprintf("lenform|%s|%s", dir, snref.TypeName(p.Type)), fmt.Sprintf("%s %s: wrong Length form for %d bytes", dir, snref.TypeName(p.Type), len(it.B)), it.Seq})
			continue
		}
		if !valid(p.Type) {
			vs = append(vs, V{"C23", fmt.Sprintf("direction|%s|%s", dir, snref.TypeName(p.Type)), fmt.Sprintf("%s is not a packet a %s may send", snref.TypeName(p.Type), strings.Split(dir, "->")[0]), it.Seq})
		}
	}
	return
}

func typeOf(b []byte) string {
	if p, _ := snref.ParseLoose(b); p != nil {
		return snref.TypeName(p.Type)
	}
	return "?"
}
func hexHead(b []byte) string { return fmt.Sprintf("%x", cut(b, 3)) }
func cut(b []byte, n int) []byte {
	if len(b) > n {
		return b[:n]
	}
	return b
}

// ---------------------------------------------------------------- C24

// C24 validates every MQTT packet the gateway wrote to the broker.
func C24(items []Item, restOut []byte) (vs []V, checked int) {
	for _, it := range items {
		if it.Kind != world.MQOut || it.MQ == nil {
			continue
		}
		checked++
		for _, pr := range mqttref.ValidateClientPacket(it.MQ) {
			rule := strings.SplitN(pr, ":", 2)[0]
			vs = append(vs, V{"C24", fmt.Sprintf("%s|%s", rule, mqttref.TypeName(it.MQ.Type)), fmt.Sprintf("gateway sent %s violating MQTT 3.1.1: %s", it.MQ, pr), it.Seq})
		}
	}
	if len(restOut) > 0 {
		vs = append(vs, V{"C24", "stream-garbage", fmt.Sprintf("gateway->broker stream ends in bytes that are not an MQTT packet: %x", cut(restOut, 32)), -1})
	}
	return
}

// ---------------------------------------------------------------- C14

// C14: every MQTT DISCONNECT the gateway sends is matched, in order, with an
// earlier plain DISCONNECT received from the client.
func C14(items []Item) (vs []V, checked int) {
	credit := 0
	for _, it := range items {
		switch {
		case it.Kind == world.SNIn && it.SNErr == nil && plainDisconnect(it.SN) && it.delivered():
			credit++
		case it.isMQ(world.MQOut, mqttref.DISCONNECT):
			checked++
			if credit == 0 {
				vs = append(vs, V{"C14", "mqtt-disconnect-without-client-disconnect|" + lastCause(items, it.Seq), "gateway sent MQTT DISCONNECT (cancelling the will) without a plain DISCONNECT from the client", it.Seq})
			} else {
				credit--
			}
		}
	}
	return
}

func lastCause(items []Item, seq int) string {
	last := "start"
	for _, it := range items {
		if it.Seq >= seq {
			break
		}
		if it.Kind == world.SNIn && it.SN != nil {
			last = "after-" + snref.TypeName(it.SN.Type)
			if it.SN.Type == snref.DISCONNECT && it.SN.HasDur && it.SN.Duration > 0 {
				last = "after-sleep-DISCONNECT"
			}
		} else if it.Kind == world.Note {
			last = "after-" + strings.Fields(it.Note + " x")[0]
		}
	}
	return last
}

// ---------------------------------------------------------------- C07

// C07 checks that nothing is relayed and no CONNACK(accepted) is sent before the broker accepted a CONNECT.
func C07(items []Item, authEnabled bool) (vs []V, checked int) {
	accepted := false // broker has answered CONNACK(0) in this session
	ended := false
	var offender *Item // first packet outside the connect exchange seen before acceptance
	for i := range items {
		it := items[i]
		switch {
		case it.Kind == world.End:
			ended = true
		case it.isMQ(world.MQIn, mqttref.CONNACK) && it.MQ.RC == 0:
			accepted = true
		case it.Kind == world.SNOut && it.SN != nil && it.SN.Type == snref.CONNACK && it.SN.RC == 0:
			checked++
			if !accepted {
				vs = append(vs, V{"C07", "connack-accepted-without-broker-accept", "gateway reported CONNACK accepted although the broker never accepted an MQTT CONNECT in this session; client path: " + pathTo(items, it.Seq), it.Seq})
			}
		case it.Kind == world.MQOut && it.MQ != nil && !accepted:
			checked++
			if it.MQ.Type == mqttref.CONNECT {
				break
			}
			if it.MQ.Type == mqttref.PUBLISH && it.MQ.QoS == 0 && !authEnabled && qosMinus1Source(items, it) {
				break
			}
			vs = append(vs, V{"C07", fmt.Sprintf("relayed-before-connect|%s", mqttref.TypeName(it.MQ.Type)), fmt.Sprintf("gateway sent %s to the broker before any CONNECT was accepted; client path: %s", it.MQ, pathTo(items, it.Seq)), it.Seq})
		case it.Kind == world.SNIn && !accepted && it.delivered():
			if offender != nil {
				break
			}
			p := it.SN
			if p == nil || it.SNErr != nil {
				break // decode errors are C13's business
			}
			switch p.Type {
			case snref.CONNECT, snref.AUTH, snref.WILLTOPIC, snref.WILLMSG:
			case snref.PUBLISH:
				if !(p.QoS == 3 && !authEnabled && (p.TIT == 1 || p.TIT == 2)) {
					offender = &items[i]
				}
			default:
				offender = &items[i]
			}
		}
		if offender != nil && it.Seq > offender.Seq && it.Kind == world.MQOut && it.MQ != nil && !accepted {
			// reported above as relayed-before-connect unless it is a CONNECT
			if it.MQ.Type == mqttref.CONNECT {
				vs = append(vs, V{"C07", "connect-after-illegal-packet|" + snref.TypeName(offender.SN.Type), fmt.Sprintf("session went on (sent MQTT CONNECT) after %s outside the connect exchange", offender.SN), it.Seq})
			}
		}
	}
	if offender != nil {
		checked++
		if !ended && !accepted {
			vs = append(vs, V{"C07", "session-survives-illegal-packet|" + offenderClass(offender.SN), fmt.Sprintf("%s before a successful connect exchange did not close the session", offender.SN), offender.Seq})
		}
	}
	return
}

func offenderClass(p *snref.Pkt) string {
	s := snref.TypeName(p.Type)
	if p.Type == snref.DISCONNECT && p.HasDur && p.Duration > 0 {
		s = "sleep-DISCONNECT"
	}
	return s
}

// pathTo abstracts the client->gateway packet types up to seq (for signatures).
func pathTo(items []Item, seq int) string {
	var ts []string
	for _, it := range items {
		if it.Seq >= seq {
			break
		}
		if it.Kind == world.SNIn && it.SN != nil {
			n := offenderClass(it.SN)
			if len(ts) == 0 || ts[len(ts)-1] != n {
				ts = append(ts, n)
			}
		}
	}
	if len(ts) > 6 {
		ts = ts[len(ts)-6:]
	}
	return strings.Join(ts, ">")
}

// qosMinus1Source: the MQTT PUBLISH stems from an earlier SN PUBLISH QoS -1 on a short/predefined topic with the same payload.
func qosMinus1Source(items []Item, mq Item) bool {
	for _, it := range items {
		if it.Seq >= mq.Seq {
			break
		}
		if it.Kind == world.SNIn && it.SN != nil && it.SN.Type == snref.PUBLISH && it.SN.QoS == 3 && (it.SN.TIT == 1 || it.SN.TIT == 2) && bytes.Equal(it.SN.Data, mq.MQ.Payload) {
			return true
		}
	}
	return false
}

var errReservedProtoID = errors.New("CONNECT with a reserved protocol ID")

// ---------------------------------------------------------------- C08 / C09

// Exchange is one connect exchange: from an SN CONNECT to the next one or the end.
type Exchange struct {
	Connect Item
	Items   []Item
}

func Exchanges(items []Item) []Exchange {
	var out []Exchange
	var cur *Exchange
	for _, it := range items {
		if it.Kind == world.SNIn && it.SNErr == nil && it.SN != nil && it.SN.Type == snref.CONNECT && it.delivered() && it.SN.Duration != 0 {
			out = append(out, Exchange{Connect: it})
			cur = &out[len(out)-1]
			continue
		}
		if cur != nil {
			cur.Items = append(cur.Items, it)
		}
	}
	return out
}

func splitPlain(d []byte) (user string, pw []byte, ok bool) {
	parts := bytes.Split(d, []byte{0})
	if len(parts) != 3 {
		return "", nil, false
	}
	return string(parts[1]), parts[2], true
}

// C08 checks credentials on every MQTT CONNECT.
func C08(items []Item, auth bool, cfgUser *string, cfgPw []byte) (vs []V, checked int) {
	// MQTT CONNECTs outside any exchange (no SN CONNECT seen yet)
	seenConnect := false
	for _, it := range items {
		if it.Kind == world.SNIn && it.SN != nil && it.SNErr == nil && it.SN.Type == snref.CONNECT {
			seenConnect = true
		}
		if !seenConnect && it.isMQ(world.MQOut, mqttref.CONNECT) {
			vs = append(vs, V{"C08", "mqtt-connect-without-sn-connect", "MQTT CONNECT sent before any MQTT-SN CONNECT", it.Seq})
		}
	}
	for _, ex := range Exchanges(items) {
		var goods []*snref.Pkt
		unknown := false // the first AUTH of the exchange (the awaited one, auth on) had an unknown method
		nAuth := 0
		var unknownItem Item
		for _, it := range ex.Items {
			if it.Kind == world.SNIn && it.SNErr == nil && it.SN != nil && it.SN.Type == snref.AUTH && it.delivered() {
				nAuth++
				if it.SN.Name == "PLAIN" {
					if _, _, ok := splitPlain(it.SN.Data); ok {
						goods = append(goods, it.SN)
					}
				} else if nAuth == 1 && auth {
					unknown = true
					unknownItem = it
				}
			}
			if it.isMQ(world.MQOut, mqttref.CONNECT) {
				checked++
				c := it.MQ
				if unknown {
					vs = append(vs, V{"C08", fmt.Sprintf("connect-after-unknown-auth-method|auth=%v", auth), "MQTT CONNECT sent after an AUTH with an unknown method in the same exchange", it.Seq})
				}
				if auth {
					if len(goods) == 0 {
						vs = append(vs, V{"C08", "connect-without-auth", "authentication enabled, but MQTT CONNECT was sent without a well-formed PLAIN AUTH in this exchange; client path: " + pathTo(items, it.Seq), it.Seq})
						continue
					}
					match := false
					for _, g := range goods {
						u, p, _ := splitPlain(g.Data)
						if c.HasUser && c.HasPass && c.User == u && bytes.Equal(c.Password, p) {
							match = true
						}
					}
					if !match {
						u, p, _ := splitPlain(goods[len(goods)-1].Data)
						vs = append(vs, V{"C08", "wrong-credentials|auth=on", fmt.Sprintf("MQTT CONNECT carries user=%q(flag %v) password=%q(flag %v), the client's AUTH said %q / %q", c.User, c.HasUser, c.Password, c.HasPass, u, p), it.Seq})
					}
				} else {
					// MQTT forbids a password without a user name: a password-only configuration sends neither
				wantU, wantP := cfgUser != nil, cfgPw != nil && cfgUser != nil
					ok := c.HasUser == wantU && c.HasPass == wantP
					if ok && wantU && c.User != *cfgUser {
						ok = false
					}
					if ok && wantP && !bytes.Equal(c.Password, cfgPw) {
						ok = false
					}
					if !ok {
						cls := "no-auth-packets"
						if nAuth > 0 {
							cls = "after-client-AUTH"
						}
						vs = append(vs, V{"C08", "wrong-credentials|auth=off|" + cls, fmt.Sprintf("authentication disabled, MQTT CONNECT carries user=%q(flag %v) password=%q(flag %v) instead of the gateway's configured credentials", c.User, c.HasUser, c.Password, c.HasPass), it.Seq})
					}
				}
			}
		}
		if unknown && auth && !doomed(items, ex.Connect) && !doomed(items, unknownItem) {
			checked++
			got := false
			for _, it := range ex.Items {
				if it.Kind == world.SNOut && it.SN != nil && it.SN.Type == snref.CONNACK && it.SN.RC == 3 {
					got = true
				}
			}
			if !got {
				vs = append(vs, V{"C08", "unknown-method-not-answered", "AUTH with an unknown method was not answered with CONNACK 'not supported'", ex.Connect.Seq})
			}
		}
	}
	return
}

// C09 checks the will protocol, one CONNECT per exchange and the CONNACK mapping.
func C09(items []Item, auth bool) (vs []V, checked int) {
	// zero keep-alive: refused with a decodable CONNACK 'not supported', never forwarded
	for i, it := range items {
		if it.isMQ(world.MQOut, mqttref.CONNECT) && it.MQ.KeepAlive == 0 {
			checked++
			vs = append(vs, V{"C09", "zero-keepalive-forwarded", "MQTT CONNECT with keep-alive 0 sent to the broker", it.Seq})
		}
		if it.Kind == world.SNIn && it.SNErr == nil && it.SN != nil && it.SN.Type == snref.CONNECT && it.SN.Duration == 0 && it.delivered() {
			if precededByAwake(items, it.Seq) || doomed(items, it) {
				continue
			}
			checked++
			ok := false
			for _, nx := range items[i+1:] {
				if nx.Kind == world.SNIn {
					break
				}
				if nx.Kind == world.SNOut {
					ok = nx.SN != nil && nx.SNErr == nil && nx.SN.Type == snref.CONNACK && nx.SN.RC == 3
					break
				}
				if nx.isMQ(world.MQOut, mqttref.CONNECT) {
					break
				}
			}
			if !ok {
				vs = append(vs, V{"C09", "zero-keepalive-not-refused", "CONNECT with keep-alive 0 was not answered with a decodable CONNACK 'not supported'", it.Seq})
			}
		}
	}
	for _, ex := range Exchanges(items) {
		will := ex.Connect.SN.Will
		ka := ex.Connect.SN.Duration
		goodAuth := false
		wtReq, wmReq := 0, 0  // requests sent and not yet answered
		var wt, wm *snref.Pkt // answers that were solicited
		var wtItem, wmItem, authItem Item
		nWillMsgReqAfterWT, nConnectAfterWM, nConnectAfterAuth := 0, 0, 0
		nConnect := 0
		brokerCodes := []byte{}
		for _, it := range ex.Items {
			switch {
			case it.Kind == world.SNIn && it.SNErr == nil && it.SN != nil && it.delivered():
				switch it.SN.Type {
				case snref.AUTH:
					if it.SN.Name == "PLAIN" {
						if _, _, ok := splitPlain(it.SN.Data); ok && !goodAuth {
							goodAuth = true
							authItem = it
						}
					}
				case snref.WILLTOPIC:
					if wtReq > 0 {
						wtReq--
						wt = it.SN
						wtItem = it
					}
				case snref.WILLMSG:
					if wmReq > 0 {
						wmReq--
						wm = it.SN
						wmItem = it
					}
				}
			case it.Kind == world.SNOut && it.SN != nil:
				switch it.SN.Type {
				case snref.WILLTOPICREQ:
					checked++
					if !will {
						vs = append(vs, V{"C09", "willtopicreq-without-will-flag", "WILLTOPICREQ sent although the CONNECT had no Will flag", it.Seq})
					} else if auth && !goodAuth {
						vs = append(vs, V{"C09", "willtopicreq-before-auth", "WILLTOPICREQ sent before AUTH with authentication enabled", it.Seq})
					}
					wtReq++
				case snref.WILLMSGREQ:
					checked++
					if wt != nil {
						nWillMsgReqAfterWT++
					}
					if !will {
						vs = append(vs, V{"C09", "willmsgreq-without-will-flag", "WILLMSGREQ sent although the CONNECT had no Will flag", it.Seq})
					} else if wt == nil {
						vs = append(vs, V{"C09", "willmsgreq-without-solicited-willtopic", "WILLMSGREQ sent without a WILLTOPIC answering a WILLTOPICREQ", it.Seq})
					}
					wmReq++
				case snref.CONNACK:
					checked++
					if len(brokerCodes) > 0 {
						code := brokerCodes[0]
						brokerCodes = brokerCodes[1:]
						want := byte(0)
						if code != 0 {
							want = 1
						}
						if it.SN.RC != want {
							vs = append(vs, V{"C09", fmt.Sprintf("connack-mapping|broker=%d|sn=%d", min8(code, 6), it.SN.RC), fmt.Sprintf("broker CONNACK code %d was reported to the client as %d (expected %d)", code, it.SN.RC, want), it.Seq})
						}
					} else if it.SN.RC == 0 {
						// accepted without a broker answer in this exchange: only the documented awake->CONNECT shortcut, which C07 judges
					}
				}
			case it.isMQ(world.MQIn, mqttref.CONNACK):
				brokerCodes = append(brokerCodes, it.MQ.RC)
			case it.isMQ(world.MQOut, mqttref.CONNECT):
				checked++
				nConnect++
				if wm != nil {
					nConnectAfterWM++
				}
				if goodAuth {
					nConnectAfterAuth++
				}
				c := it.MQ
				if nConnect > 1 {
					vs = append(vs, V{"C09", "second-mqtt-connect-in-exchange|" + pathTo(ex.asItems(), it.Seq), "more than one MQTT CONNECT for one connect exchange; client path: " + pathTo(ex.asItems(), it.Seq), it.Seq})
				}
				hasWill := c.CFlags&4 != 0
				if !will {
					if hasWill {
						vs = append(vs, V{"C09", "will-flag-without-will", "MQTT CONNECT has the will flag although the client's CONNECT had none", it.Seq})
					}
					break
				}
				if (wm == nil || wt == nil) && sleptInside(ex) {
					// the client announced sleep in the middle of the exchange: the gateway's requests were
					// held back for it (C11), the oracle cannot tell solicited from unsolicited answers
					break
				}
				if wm == nil || wt == nil {
					vs = append(vs, V{"C09", "mqtt-connect-before-will-complete|" + pathTo(ex.asItems(), it.Seq), "CONNECT with Will: MQTT CONNECT sent before a solicited WILLTOPIC and WILLMSG; client path: " + pathTo(ex.asItems(), it.Seq), it.Seq})
					break
				}
				wq := (c.CFlags >> 3) & 3
				wr := c.CFlags&0x20 != 0
				if !hasWill || c.WillTopic != wt.Name || !bytes.Equal(c.WillMsg, wm.Data) || wq != wt.QoS || wr != wt.Retain {
					vs = append(vs, V{"C09", "will-fields-differ", fmt.Sprintf("MQTT CONNECT will (flag %v topic %q msg %q qos %d retain %v) differs from the client's WILLTOPIC %s / WILLMSG %q", hasWill, c.WillTopic, c.WillMsg, wq, wr, wt, wm.Data), it.Seq})
				}
			}
		}
		// progress: each step of a well-formed exchange is answered by the next one
		healthy := ka != 0 && !precededByAwake(items, ex.Connect.Seq) && !doomed(items, ex.Connect) && !sleptInside(ex)
		if healthy && wt != nil && wt.Name != "" && wt.QoS <= 2 && !hasWildS(wt.Name) && (!doomed(items, wtItem) || soleInput(items, wtItem)) {
			checked++
			if nWillMsgReqAfterWT == 0 {
				vs = append(vs, V{"C09", fmt.Sprintf("no-willmsgreq|willqos=%d", wt.QoS), fmt.Sprintf("solicited %s was not answered with WILLMSGREQ", wt), wtItem.Seq})
			}
		}
		if healthy && wm != nil && (!doomed(items, wmItem) || soleInput(items, wmItem)) {
			checked++
			if nConnectAfterWM == 0 {
				vs = append(vs, V{"C09", "no-mqtt-connect-after-willmsg", fmt.Sprintf("solicited WILLMSG (will topic %s) was not followed by an MQTT CONNECT", wt), wmItem.Seq})
			}
		}
		if healthy && !will && auth && goodAuth && !doomed(items, authItem) {
			checked++
			if nConnectAfterAuth == 0 {
				vs = append(vs, V{"C09", "no-mqtt-connect-after-auth", "CONNECT without Will and a well-formed AUTH were not followed by an MQTT CONNECT", authItem.Seq})
			}
		}
		if healthy && !will && !auth {
			checked++
			if nConnect == 0 {
				vs = append(vs, V{"C09", "no-mqtt-connect", "CONNECT without Will (authentication off) was not followed by an MQTT CONNECT", ex.Connect.Seq})
			}
		}
		if will && !auth && ka != 0 && !precededByAwake(items, ex.Connect.Seq) && !doomed(items, ex.Connect) {
			checked++
			got := false
			for _, it := range ex.Items {
				if it.Kind == world.SNOut && it.SN != nil && it.SN.Type == snref.WILLTOPICREQ {
					got = true
				}
			}
			if !got && !exchangeCutShort(ex) {
				vs = append(vs, V{"C09", "no-willtopicreq", "CONNECT with Will flag was not answered with WILLTOPICREQ", ex.Connect.Seq})
			}
		}
	}
	return
}

// sleptInside: the client sent a DISCONNECT with a sleep duration inside the exchange.
func sleptInside(ex Exchange) bool {
	for _, it := range ex.Items {
		if it.Kind == world.SNIn && it.SN != nil && it.SNErr == nil && it.SN.Type == snref.DISCONNECT && it.SN.HasDur && it.SN.Duration > 0 {
			return true
		}
	}
	return false
}

func (ex Exchange) asItems() []Item { return append([]Item{ex.Connect}, ex.Items...) }

// exchangeCutShort: the session ended or was shut down right after the CONNECT (nothing can be expected).
func exchangeCutShort(ex Exchange) bool {
	for _, it := range ex.Items {
		if it.Kind == world.End || it.Kind == world.Note {
			return true
		}
	}
	return false
}

// precededByAwake: crude test whether the client had been put to sleep earlier in the session (CONNECT then acts as the wake-up shortcut).
func precededByAwake(items []Item, seq int) bool {
	for _, it := range items {
		if it.Seq >= seq {
			break
		}
		if it.Kind == world.SNIn && it.SN != nil && it.SN.Type == snref.DISCONNECT && it.SN.HasDur && it.SN.Duration > 0 {
			return true
		}
	}
	return false
}

// soleInput: nothing else reached the gateway between its last output and the given packet, so if the session
// died right after the packet, the packet itself is what killed it (and "it was doomed anyway" is no excuse).
func soleInput(items []Item, at Item) bool {
	for i := len(items) - 1; i >= 0; i-- {
		it := items[i]
		if it.Seq >= at.Seq {
			continue
		}
		switch it.Kind {
		case world.SNOut:
			// a DISCONNECT to the client is the notice of a session that is already ending
			return !(it.SN != nil && it.SN.Type == snref.DISCONNECT)
		case world.MQOut:
			return true
		case world.SNIn, world.MQIn, world.Note, world.CloseMB, world.CloseSC:
			return false
		}
	}
	return false
}

// doomed: the session ended within one poll interval (plus a write) after the
// given event without the gateway sending anything in between, i.e. it was
// already shutting down (an earlier packet ended it) when the packet arrived.
func doomed(items []Item, at Item) bool {
	for _, it := range items {
		if it.Seq <= at.Seq {
			continue
		}
		if it.Kind == world.SNOut || it.Kind == world.MQOut {
			return false
		}
		if it.Kind == world.End {
			return it.T <= at.T+150*time.Millisecond
		}
	}
	return false
}

func hasWildS(s string) bool { return strings.ContainsAny(s, "+#") }

func min8(a, b byte) byte {
	if a < b {
		return a
	}
	return b
}

// ---------------------------------------------------------------- helpers for timing monitors

// EndTime returns the virtual time the session handler returned (ok=false if it did not).
func EndTime(items []Item) (time.Duration, bool) {
	for _, it := range items {
		if it.Kind == world.End {
			return it.T, true
		}
	}
	return 0, false
}

// Find returns the first item satisfying f.
func Find(items []Item, f func(Item) bool) (Item, bool) {
	for _, it := range items {
		if f(it) {
			return it, true
		}
	}
	return Item{}, false
}

// Dedup keeps one violation per signature (the first), sorted by signature.
func Dedup(vs []V) []V {
	seen := map[string]bool{}
	var out []V
	for _, v := range vs {
		k := v.Prop + "/" + v.Sig
		if !seen[k] {
			seen[k] = true
			out = append(out, v)
		}
	}
	sort.SliceStable(out, func(i, j int) bool { return out[i].Sig < out[j].Sig })
	return out
}
