package monitors

import (
	"bytes"
	"fmt"
	"strings"

	"verifharness/mqttref"
	"verifharness/snref"
	"verifharness/world"
)

// Predef is the reference view of a predefined-topic configuration.
type Predef map[string]map[uint16]string

func (p Predef) Name(client string, id uint16) (string, bool) {
	if m, ok := p[client]; ok {
		if n, ok := m[id]; ok {
			return n, true
		}
	}
	if m, ok := p["*"]; ok {
		if n, ok := m[id]; ok {
			return n, true
		}
	}
	return "", false
}

// Visible reports whether id is a predefined ID for that client.
func (p Predef) Visible(client string, id uint16) bool { _, ok := p.Name(client, id); return ok }

func hasWild(s string) bool { return strings.ContainsAny(s, "+#") }

// topicModel is the reference registration state of one session, built only from what crossed the wire.
type topicModel struct {
	pre      Predef
	clientID string
	definite map[uint16]string // id -> name, confirmed to the client (gateway side meaning == client knowledge)
	pendReg  map[uint16]string // client REGISTER msgID -> name
	pendSub  map[uint16]*snref.Pkt
	gwReg    map[uint32]*snref.Pkt // gateway REGISTER by (msgID, TopicID): the gateway may have two REGISTERs with one message ID outstanding (its own ID for a QoS 0 message, the broker's for a QoS 1/2 one)
	handed   map[uint16]string     // every id the gateway handed out -> first name
	maybe    map[uint16]bool       // ids possibly allocated but not (yet) confirmed: don't-care
	rejected map[uint16]string     // ids of gateway REGISTERs the client refused: they denote nothing
	refused  map[string]int        // topic name -> seq of the client's refusing REGACK
	gwRegN    map[uint32]int    // outstanding gateway REGISTERs per (msgID, TopicID)
	gwRegTid  map[uint16]int    // outstanding gateway REGISTERs per TopicID
	gwRegName map[uint16]string // TopicID -> name of the gateway's latest REGISTER for it
	gwRegSent map[uint32]int    // REGISTERs ever sent per (msgID, TopicID)
	gwRegAcks map[uint32]int    // REGACKs seen per (msgID, TopicID)
	ambiguous map[uint16]bool   // TopicIDs whose REGACKs cannot be attributed (see feed)
	gwRegRC   map[uint32]int    // bit 1: an accepting, bit 2: a refusing REGACK was seen for (msgID, TopicID)
}

func newTopicModel(pre Predef) *topicModel {
	return &topicModel{pre: pre, definite: map[uint16]string{}, pendReg: map[uint16]string{}, pendSub: map[uint16]*snref.Pkt{},
		gwReg: map[uint32]*snref.Pkt{}, gwRegN: map[uint32]int{}, gwRegTid: map[uint16]int{}, gwRegName: map[uint16]string{}, gwRegSent: map[uint32]int{}, gwRegRC: map[uint32]int{}, gwRegAcks: map[uint32]int{}, ambiguous: map[uint16]bool{}, handed: map[uint16]string{}, maybe: map[uint16]bool{}, rejected: map[uint16]string{}, refused: map[string]int{}}
}

// TopicModel is the exported view of the reference registration model, for adaptive workload generators.
type TopicModel struct{ m *topicModel }

func NewTopicModel(pre Predef) *TopicModel { return &TopicModel{newTopicModel(pre)} }
func (t *TopicModel) Feed(it Item)         { t.m.feed(it) }
func (t *TopicModel) ClientID() string     { return t.m.clientID }

// Risky reports whether the reference expects the gateway to refuse the packet or to end the
// session because of it (used by generators that must not pipeline anything after such a packet).
func (t *TopicModel) Risky(p *snref.Pkt) bool {
	if p.Type == snref.PUBLISH {
		if _, st := t.m.resolve(p.TIT, p.TopicID); st != "name" {
			return true
		}
	}
	return t.m.killer(p) || t.m.rejectable(p)
}

// Rejected returns the ids of gateway REGISTERs the client refused.
func (t *TopicModel) Rejected() map[uint16]string { return t.m.rejected }

// Definite returns the confirmed id -> name registrations.
func (t *TopicModel) Definite() map[uint16]string { return t.m.definite }

// Resolve returns what (tit,tid) denotes and its state ("name", "nothing", "dontcare").
func (t *TopicModel) Resolve(tit uint8, tid uint16) (string, string) { return t.m.resolve(tit, tid) }

// resolve: what (tit,tid) denotes. state: "name", "nothing", "dontcare".
func (m *topicModel) resolve(tit uint8, tid uint16) (string, string) {
	switch tit {
	case 0:
		if n, ok := m.definite[tid]; ok {
			return n, "name"
		}
		if m.maybe[tid] {
			return "", "dontcare"
		}
		// While a SUBSCRIBE by name is outstanding the gateway has already allocated (and may already
		// honour) a topic ID for it which the wire does not show before the SUBACK: an ID unknown so
		// far may be that one.
		for _, sp := range m.pendSub {
			if sp.TIT == 0 && sp.HasName && !hasWild(sp.Name) {
				return "", "dontcare"
			}
		}
		return "", "nothing"
	case 1:
		if n, ok := m.pre.Name(m.clientID, tid); ok {
			return n, "name"
		}
		return "", "nothing"
	case 2:
		return snref.ShortName(tid), "name"
	}
	return "", "nothing"
}

// feed updates the model with one item; returns notes for C04.
func (m *topicModel) feed(it Item) {
	if it.SN == nil || it.SNErr != nil {
		return
	}
	p := it.SN
	switch it.Kind {
	case world.SNIn:
		if !it.delivered() {
			return
		}
		switch p.Type {
		case snref.CONNECT:
			if p.Duration != 0 {
				m.clientID = string(p.ClientID)
			}
		case snref.REGISTER:
			m.pendReg[p.MsgID] = p.Name
		case snref.SUBSCRIBE:
			m.pendSub[p.MsgID] = p
		case snref.REGACK:
			// The gateway may have several REGISTERs outstanding that carry the same (message ID, TopicID)
			// - e.g. its own message ID for a QoS 0 message and the broker's identical one for a QoS 1/2
			// message on the same new name - so the outstanding ones are counted, not merely flagged.
			key := uint32(p.MsgID)<<16 | uint32(p.TopicID)
			r, ok := m.gwReg[key]
			if !ok && p.RC != 0 && p.TopicID == 0 {
				// a refusal need not echo the TopicID (one that echoes another TopicID is a stale duplicate)
				for k, q := range m.gwReg {
					if k>>16 == uint32(p.MsgID) && (!ok || k < key) {
						key, r, ok = k, q, true
					}
				}
			}
			if ok {
				m.gwRegN[key]--
				if m.gwRegN[key] <= 0 {
					delete(m.gwReg, key)
					delete(m.gwRegN, key)
				}
				m.gwRegTid[r.TopicID]--
				if p.RC == 0 {
					m.definite[r.TopicID] = r.Name
					delete(m.maybe, r.TopicID)
					delete(m.rejected, r.TopicID)
				} else {
					m.refused[r.Name] = it.Seq
					if m.gwRegTid[r.TopicID] > 0 {
						// another REGISTER of this TopicID is still unanswered: the client may accept that one
						break
					}
					// the client refused the registration: the ID denotes nothing (unless confirmed otherwise)
					delete(m.maybe, r.TopicID)
					if _, ok := m.definite[r.TopicID]; !ok {
						m.rejected[r.TopicID] = r.Name
					}
				}
			}
			// Ambiguity: the gateway re-uses its message ID (65535 downwards) and the pending TopicID for the
			// REGISTERs of successive QoS 0 messages on one name, so REGISTER #2 is bit-identical to #1. If the
			// client has answered that (msgID, TopicID) both with a refusal and with an acceptance - e.g. it
			// refused #1, a late duplicate of that refusal met the outstanding #2, and its acceptance of #2
			// came after - nobody can attribute the REGACKs: the gateway rightly reads "refused", the client
			// rightly believes "registered". The ID is then neither definite nor rejected for the oracle.
			if p.TopicID != 0 {
				bit := 1
				if p.RC != 0 {
					bit = 2
				}
				m.gwRegRC[key] |= bit
				m.gwRegAcks[key]++
				// (more answers than requests = some answer is a duplicate; without duplicates every REGACK
				// belongs to the REGISTER outstanding when it arrived)
				if m.gwRegRC[key] == 3 && m.gwRegSent[key] >= 2 && m.gwRegAcks[key] > m.gwRegSent[key] {
					delete(m.definite, p.TopicID)
					delete(m.rejected, p.TopicID)
					m.maybe[p.TopicID] = true
					m.ambiguous[p.TopicID] = true
					break
				}
			}
			if ok {
				// handled above
			} else if p.RC == 0 {
				// an accepting REGACK that matches no outstanding REGISTER of the model (a duplicate, or the
				// model consumed the entry for a REGACK that the gateway attributed to a twin REGISTER): the
				// client has accepted a REGISTER of this TopicID, so it knows the name the gateway registered
				if n, ok := m.gwRegName[p.TopicID]; ok {
					m.definite[p.TopicID] = n
					delete(m.maybe, p.TopicID)
					delete(m.rejected, p.TopicID)
				}
			}
		}
	case world.SNOut:
		switch p.Type {
		case snref.REGACK:
			if n, ok := m.pendReg[p.MsgID]; ok {
				delete(m.pendReg, p.MsgID)
				if p.RC == 0 {
					m.definite[p.TopicID] = n
					delete(m.maybe, p.TopicID)
				}
			}
		case snref.SUBACK:
			if s, ok := m.pendSub[p.MsgID]; ok {
				delete(m.pendSub, p.MsgID)
				if p.RC == 0 && p.TopicID != 0 && s.TIT == 0 && s.HasName && !hasWild(s.Name) {
					m.definite[p.TopicID] = s.Name
					delete(m.maybe, p.TopicID)
				}
			}
		case snref.REGISTER:
			// (REGISTER has no DUP flag: a retransmission counts as one more outstanding REGISTER, which only
			// makes the model more cautious - a later refusal then leaves the ID undecided instead of rejected)
			k := uint32(p.MsgID)<<16 | uint32(p.TopicID)
			m.gwReg[k] = p
			m.gwRegN[k]++
			m.gwRegTid[p.TopicID]++
			m.gwRegSent[k]++
			m.gwRegName[p.TopicID] = p.Name
			m.maybe[p.TopicID] = true
		}
	}
}

// killer reports whether a delivered client packet is one the reference expects to end the session (in active state).
func (m *topicModel) killer(p *snref.Pkt) bool {
	switch p.Type {
	case snref.PUBLISH:
		_, st := m.resolve(p.TIT, p.TopicID)
		return st == "nothing"
	case snref.SUBSCRIBE, snref.UNSUBSCRIBE:
		if p.TIT == 1 {
			_, ok := m.pre.Name(m.clientID, p.TopicID)
			return !ok
		}
		return false
	case snref.CONNECT, snref.AUTH, snref.WILLTOPIC, snref.WILLMSG, snref.REGISTER, snref.REGACK, snref.PUBACK, snref.PUBREC, snref.PUBREL, snref.PUBCOMP, snref.PINGREQ:
		return false
	case snref.DISCONNECT:
		return !p.HasDur || p.Duration == 0
	}
	return true
}

// rejectable reports whether a client packet cannot be translated into a valid
// MQTT packet (the property lets the gateway refuse it: no expectation either way).
func (m *topicModel) rejectable(p *snref.Pkt) bool {
	switch p.Type {
	case snref.PUBLISH:
		if p.TIT == 3 {
			return true
		}
		if (p.QoS == 0 || p.QoS == 3) && p.DUP {
			return true
		}
		if (p.QoS == 1 || p.QoS == 2) && p.MsgID == 0 {
			return true
		}
		if n, st := m.resolve(p.TIT, p.TopicID); st == "name" && (hasWild(n) || n == "") {
			return true
		}
	case snref.SUBSCRIBE:
		return p.MsgID == 0 || p.QoS == 3
	case snref.UNSUBSCRIBE:
		return p.MsgID == 0
	}
	return false
}

// gwTerminatedAfter reports whether, after the client packet at index i and
// before the next client packet, the gateway ended the session (DISCONNECT to
// the client, or handler return) without sending anything else first.
func gwTerminatedAfter(items []Item, i int) bool {
	for _, it := range items[i+1:] {
		switch {
		case it.Kind == world.SNIn:
			return false
		case it.Kind == world.End:
			return true
		case it.Kind == world.SNOut && it.SN != nil && it.SN.Type == snref.DISCONNECT:
			return true
		case it.Kind == world.SNOut || it.Kind == world.MQOut:
			return false
		}
	}
	return false
}

// sessionActive tracks whether the gateway has told the client it is connected.
type actTracker struct{ active bool }

func (a *actTracker) feed(it Item) {
	if it.Kind == world.SNOut && it.SN != nil && it.SN.Type == snref.CONNACK && it.SN.RC == 0 {
		a.active = true
	}
	if it.Kind == world.End || (it.Kind == world.SNOut && it.SN != nil && it.SN.Type == snref.DISCONNECT) {
		a.active = false
	}
}

// ---------------------------------------------------------------- C01

// C01: client PUBLISH -> broker PUBLISH, in order, unchanged.
func C01(items []Item, pre Predef) (vs []V, checked int) {
	m := newTopicModel(pre)
	var act actTracker
	type exp struct {
		it      Item
		name    string
		forward string // "yes", "no", "dontcare"
	}
	var exps []exp
	dead := false
	for idx, it := range items {
		m.feed(it)
		act.feed(it)
		if it.Kind == world.Note && strings.HasPrefix(it.Note, "cause:") || it.Kind == world.Note && it.Note == "teardown" {
			dead = true
		}
		if it.Kind != world.SNIn || it.SN == nil || it.SNErr != nil || !it.delivered() || dead || !act.active {
			continue
		}
		p := it.SN
		if m.rejectable(p) && gwTerminatedAfter(items, idx) {
			dead = true
		}
		if p.Type == snref.PUBLISH {
			name, st := m.resolve(p.TIT, p.TopicID)
			if st == "dontcare" && gwTerminatedAfter(items, idx) {
				dead = true // the gateway did not know the ID after all
			}
			switch {
			case p.TIT == 3:
				exps = append(exps, exp{it, "", "no"})
			case m.rejectable(p):
				exps = append(exps, exp{it, "", "dontcare"})
			case st == "name":
				exps = append(exps, exp{it, name, "yes"})
			case st == "dontcare":
				exps = append(exps, exp{it, "", "dontcare"})
			default:
				exps = append(exps, exp{it, "", "no"})
			}
		}
		if !m.rejectable(p) && m.killer(p) {
			dead = true
		}
	}
	// observed forwards
	var outs []Item
	for _, it := range items {
		if it.isMQ(world.MQOut, mqttref.PUBLISH) {
			outs = append(outs, it)
		}
	}
	oi := 0
	for _, e := range exps {
		p := e.it.SN
		cls := fmt.Sprintf("tit=%d|qos=%d", p.TIT, p.QoS)
		if e.forward == "dontcare" {
			// consume a matching forward if there is one
			if oi < len(outs) && bytes.Equal(outs[oi].MQ.Payload, p.Data) && outs[oi].Seq > e.it.Seq {
				oi++
			}
			continue
		}
		checked++
		// Forwards keep the order of the client's packets (one receive loop), so the next unconsumed
		// forward belongs to the earliest client PUBLISH that was forwarded. With unique (non-empty)
		// payload tags the match is by payload, wherever the forward appears after the client packet
		// (pipelined traffic); with an empty payload the forward must precede the next client packet.
		upper := nextSNInAfter(items, e.it.Seq)
		if len(p.Data) > 0 {
			upper = 1 << 60
		}
		if e.forward == "no" {
			if oi < len(outs) && outs[oi].Seq > e.it.Seq && bytes.Equal(outs[oi].MQ.Payload, p.Data) && upper > outs[oi].Seq {
				vs = append(vs, V{"C01", "forwarded-undefined-topic|" + cls, fmt.Sprintf("%s whose topic ID denotes nothing was forwarded as %s", p, outs[oi].MQ), outs[oi].Seq})
				oi++
			}
			continue
		}
		if oi >= len(outs) || outs[oi].Seq < e.it.Seq || outs[oi].Seq > upper || (len(p.Data) > 0 && !bytes.Equal(outs[oi].MQ.Payload, p.Data)) {
			vs = append(vs, V{"C01", "not-forwarded|" + cls, fmt.Sprintf("%s (topic %q) was not forwarded to the broker", p, e.name), e.it.Seq})
			continue
		}
		o := outs[oi].MQ
		oi++
		wantQ := p.QoS
		if wantQ == 3 {
			wantQ = 0
		}
		var diffs []string
		if o.Topic != e.name {
			diffs = append(diffs, fmt.Sprintf("topic %q want %q", o.Topic, e.name))
		}
		if !bytes.Equal(o.Payload, p.Data) {
			diffs = append(diffs, "payload")
		}
		if o.Retain != p.Retain {
			diffs = append(diffs, "retain")
		}
		if o.Dup != p.DUP {
			diffs = append(diffs, "dup")
		}
		if o.QoS != wantQ {
			diffs = append(diffs, fmt.Sprintf("qos %d want %d", o.QoS, wantQ))
		}
		if wantQ > 0 && o.MsgID != p.MsgID {
			diffs = append(diffs, fmt.Sprintf("msgid %d want %d", o.MsgID, p.MsgID))
		}
		if len(diffs) > 0 {
			vs = append(vs, V{"C01", "forward-differs|" + strings.Join(fieldNames(diffs), "+") + "|" + cls, fmt.Sprintf("%s was forwarded as %s: %s", p, o, strings.Join(diffs, ", ")), outs[oi-1].Seq})
		}
	}
	if oi < len(outs) && !hasDontCare(exps2bool(len(exps), func(i int) bool { return exps[i].forward == "dontcare" })) {
		checked++
		vs = append(vs, V{"C01", "extra-forward", fmt.Sprintf("broker received a PUBLISH no accepted client PUBLISH accounts for: %s", outs[oi].MQ), outs[oi].Seq})
	}
	return
}

func exps2bool(n int, f func(int) bool) []bool {
	out := make([]bool, n)
	for i := range out {
		out[i] = f(i)
	}
	return out
}
func hasDontCare(b []bool) bool {
	for _, x := range b {
		if x {
			return true
		}
	}
	return false
}

func fieldNames(diffs []string) []string {
	var out []string
	for _, d := range diffs {
		out = append(out, strings.Fields(d)[0])
	}
	return out
}

// nextSNInAfter returns the Seq of the next delivered client packet after seq (or a large number).
func nextSNInAfter(items []Item, seq int) int {
	for _, it := range items {
		if it.Seq > seq && it.Kind == world.SNIn {
			return it.Seq
		}
	}
	return 1 << 30
}

// ---------------------------------------------------------------- C02

// C02: broker PUBLISH -> client PUBLISH under an ID the client can resolve.
func C02(items []Item, pre Predef) (vs []V, checked int) {
	m := newTopicModel(pre)
	var act actTracker
	type inj struct {
		it     Item
		active bool
	}
	var injs []inj
	delivered := map[string][]Item{} // payload -> SN< PUBLISH events (first transmissions and dups)
	resolvedAt := map[int]string{}   // seq of SN< PUBLISH -> what its id resolved to at that moment ("" = unresolvable)
	resolvable := map[int]bool{}
	undecided := map[int]bool{} // the model cannot tell what the ID means to the client (ambiguous REGACK attribution only; an ID whose REGISTER is merely unanswered is NOT excused)
	ended := false
	for _, it := range items {
		m.feed(it)
		act.feed(it)
		if it.Kind == world.Note && (strings.HasPrefix(it.Note, "cause:") || it.Note == "teardown") {
			ended = true
		}
		if it.isMQ(world.MQIn, mqttref.PUBLISH) {
			injs = append(injs, inj{it, act.active && !ended})
		}
		if it.Kind == world.SNOut && it.SN != nil && it.SNErr == nil && it.SN.Type == snref.PUBLISH {
			key := string(it.SN.Data)
			delivered[key] = append(delivered[key], it)
			n, st := m.resolve(it.SN.TIT, it.SN.TopicID)
			resolvedAt[it.Seq] = n
			resolvable[it.Seq] = st == "name"
			undecided[it.Seq] = st == "dontcare" && m.ambiguous[it.SN.TopicID] && it.SN.TIT == 0
		}
	}
	for _, in := range injs {
		if !in.active {
			continue
		}
		p := in.it.MQ
		cls := fmt.Sprintf("qos=%d|%s", p.QoS, topicClass(p.Topic, m, pre))
		checked++
		ds := delivered[string(p.Payload)]
		var firsts []Item
		for _, d := range ds {
			if !d.SN.DUP && d.Seq > in.it.Seq {
				firsts = append(firsts, d)
			}
		}
		if len(firsts) == 0 {
			if seq, ok := m.refused[p.Topic]; ok && seq > in.it.Seq {
				// the client refused the REGISTER this message needed: nothing can be expected
				checked--
				continue
			}
			vs = append(vs, V{"C02", "not-delivered|" + cls, fmt.Sprintf("broker %s never reached the client", p), in.it.Seq})
			continue
		}
		if len(firsts) > 1 {
			vs = append(vs, V{"C02", "delivered-twice|" + cls, fmt.Sprintf("broker %s reached the client %d times (not counting DUP retransmissions)", p, len(firsts)), firsts[1].Seq})
		}
		d := firsts[0]
		if undecided[d.Seq] {
			// no verdict on the ID; the other fields are still compared
		} else if !resolvable[d.Seq] || resolvedAt[d.Seq] != p.Topic {
			vs = append(vs, V{"C02", "unresolvable-topic-id|" + cls, fmt.Sprintf("broker %s was delivered as %s, which the client resolves to %q (resolvable=%v)", p, d.SN, resolvedAt[d.Seq], resolvable[d.Seq]), d.Seq})
		}
		if d.SN.QoS != p.QoS || d.SN.Retain != p.Retain {
			vs = append(vs, V{"C02", "flags-differ|" + cls, fmt.Sprintf("broker %s was delivered as %s (QoS/retain differ)", p, d.SN), d.Seq})
		}
		if p.QoS > 0 && d.SN.MsgID != p.MsgID {
			vs = append(vs, V{"C02", "msgid-differs|" + cls, fmt.Sprintf("broker %s was delivered with message ID %d", p, d.SN.MsgID), d.Seq})
		}
	}
	return
}

func topicClass(name string, m *topicModel, pre Predef) string {
	if len(name) == 2 {
		return "short"
	}
	for _, mm := range pre {
		for _, n := range mm {
			if n == name {
				return "predefined-name"
			}
		}
	}
	return "long"
}

// ---------------------------------------------------------------- C03

// C03: control packets translated one-to-one.
func C03(items []Item, pre Predef) (vs []V, checked int) {
	m := newTopicModel(pre)
	var act actTracker
	dead := false
	type subx struct {
		sn   *snref.Pkt
		name string
		seq  int
	}
	var snSubs, snUnsubs []subx
	var snPubrel, snPing, snDisc []Item
	var mqSubs, mqUnsubs, mqPubrel, mqPing, mqDisc []Item
	var mqPubrec, mqPubcomp, mqUnsuback, mqSuback, mqPingresp []Item
	var snPubrec, snPubcomp, snUnsuback, snSuback, snPingresp []Item
	asleep := false
	for idx, it := range items {
		m.feed(it)
		act.feed(it)
		if it.Kind == world.Note && (strings.HasPrefix(it.Note, "cause:") || it.Note == "teardown") {
			dead = true
		}
		switch {
		case it.Kind == world.SNIn && it.SN != nil && it.SNErr == nil && it.delivered() && act.active && !dead:
			p := it.SN
			if m.rejectable(p) {
				// the gateway may refuse it (with a non-accepted code or by ending the session): no expectation
				if gwTerminatedAfter(items, idx) {
					dead = true
				}
				break
			}
			switch p.Type {
			case snref.SUBSCRIBE, snref.UNSUBSCRIBE:
				var name string
				ok := true
				switch p.TIT {
				case 0:
					name = p.Name
				case 1:
					name, ok = pre.Name(m.clientID, p.TopicID)
				case 2:
					name = snref.ShortName(p.TopicID)
				}
				if ok {
					if p.Type == snref.SUBSCRIBE {
						snSubs = append(snSubs, subx{p, name, it.Seq})
					} else {
						snUnsubs = append(snUnsubs, subx{p, name, it.Seq})
					}
				}
			case snref.PUBREL:
				snPubrel = append(snPubrel, it)
			case snref.PINGREQ:
				if !asleep {
					snPing = append(snPing, it)
				}
			case snref.DISCONNECT:
				if !p.HasDur || p.Duration == 0 {
					snDisc = append(snDisc, it)
				} else {
					asleep = true
				}
			case snref.CONNECT:
				asleep = false
			}
			if !m.rejectable(p) && m.killer(p) {
				dead = true
			}
		case it.Kind == world.MQOut && it.MQ != nil:
			switch it.MQ.Type {
			case mqttref.SUBSCRIBE:
				mqSubs = append(mqSubs, it)
			case mqttref.UNSUBSCRIBE:
				mqUnsubs = append(mqUnsubs, it)
			case mqttref.PUBREL:
				mqPubrel = append(mqPubrel, it)
			case mqttref.PINGREQ:
				mqPing = append(mqPing, it)
			case mqttref.DISCONNECT:
				mqDisc = append(mqDisc, it)
			}
		case it.Kind == world.MQIn && it.MQ != nil && act.active && !dead:
			switch it.MQ.Type {
			case mqttref.PUBREC:
				mqPubrec = append(mqPubrec, it)
			case mqttref.PUBCOMP:
				mqPubcomp = append(mqPubcomp, it)
			case mqttref.UNSUBACK:
				mqUnsuback = append(mqUnsuback, it)
			case mqttref.SUBACK:
				mqSuback = append(mqSuback, it)
			case mqttref.PINGRESP:
				if !asleep {
					mqPingresp = append(mqPingresp, it)
				}
			}
		case it.Kind == world.SNOut && it.SN != nil && it.SNErr == nil:
			switch it.SN.Type {
			case snref.PUBREC:
				snPubrec = append(snPubrec, it)
			case snref.PUBCOMP:
				snPubcomp = append(snPubcomp, it)
			case snref.UNSUBACK:
				snUnsuback = append(snUnsuback, it)
			case snref.SUBACK:
				snSuback = append(snSuback, it)
			case snref.PINGRESP:
				snPingresp = append(snPingresp, it)
			}
		}
	}
	if asleep {
		// sleep phases make PINGREQ/PINGRESP attribution ambiguous: judged by C11/C12
		snPing, mqPing, mqPingresp, snPingresp = nil, nil, nil, nil
	}
	// SUBSCRIBE / UNSUBSCRIBE
	cmpSub := func(kind string, sn []subx, mq []Item) {
		for i, s := range sn {
			checked++
			if i >= len(mq) {
				vs = append(vs, V{"C03", kind + "-not-forwarded|" + titClass(s.sn), fmt.Sprintf("%s (filter %q) was not forwarded to the broker", s.sn, s.name), s.seq})
				continue
			}
			q := mq[i].MQ
			var diffs []string
			if q.MsgID != s.sn.MsgID {
				diffs = append(diffs, "msgid")
			}
			if len(q.Filters) != 1 || q.Filters[0] != s.name {
				diffs = append(diffs, "filter")
			}
			if kind == "subscribe" && (len(q.QoSs) != 1 || q.QoSs[0] != s.sn.QoS) {
				diffs = append(diffs, "qos")
			}
			if len(diffs) > 0 {
				vs = append(vs, V{"C03", kind + "-differs|" + strings.Join(diffs, "+") + "|" + titClass(s.sn), fmt.Sprintf("%s (filter %q) was forwarded as %s", s.sn, s.name, q), mq[i].Seq})
			}
		}
		if len(mq) > len(sn) {
			checked++
			vs = append(vs, V{"C03", kind + "-extra", fmt.Sprintf("broker received %d %s packets for %d from the client", len(mq), kind, len(sn)), mq[len(sn)].Seq})
		}
	}
	cmpSub("subscribe", snSubs, mqSubs)
	cmpSub("unsubscribe", snUnsubs, mqUnsubs)
	// id-only packets, both directions
	cmpID := func(kind string, src, dst []Item, srcID func(Item) uint16, dstID func(Item) uint16) {
		for i, s := range src {
			checked++
			if i >= len(dst) {
				vs = append(vs, V{"C03", kind + "-not-translated", fmt.Sprintf("%s #%d (message ID %d) was not translated", kind, i, srcID(s)), s.Seq})
				continue
			}
			if srcID(s) != dstID(dst[i]) {
				vs = append(vs, V{"C03", kind + "-msgid-differs", fmt.Sprintf("%s with message ID %d was translated with message ID %d", kind, srcID(s), dstID(dst[i])), dst[i].Seq})
			}
		}
		if len(dst) > len(src) {
			checked++
			vs = append(vs, V{"C03", kind + "-extra", fmt.Sprintf("%d %s packets sent for %d received", len(dst), kind, len(src)), dst[len(src)].Seq})
		}
	}
	snID := func(it Item) uint16 { return it.SN.MsgID }
	mqID := func(it Item) uint16 { return it.MQ.MsgID }
	zero := func(Item) uint16 { return 0 }
	cmpID("PUBREL", snPubrel, mqPubrel, snID, mqID)
	cmpID("PINGREQ", snPing, mqPing, zero, zero)
	cmpID("DISCONNECT", snDisc, mqDisc, zero, zero)
	cmpID("PUBREC", mqPubrec, snPubrec, mqID, snID)
	cmpID("PUBCOMP", mqPubcomp, snPubcomp, mqID, snID)
	cmpID("UNSUBACK", mqUnsuback, snUnsuback, mqID, snID)
	cmpID("PINGRESP", mqPingresp, snPingresp, zero, zero)
	// SUBACK: code, granted QoS, topic ID
	subByID := map[uint16]subx{}
	for _, s := range snSubs {
		subByID[s.sn.MsgID] = s
	}
	nSuback := 0
	for _, q := range mqSuback {
		if len(q.MQ.Codes) != 1 {
			continue
		}
		code := q.MQ.Codes[0]
		checked++
		if nSuback >= len(snSuback) {
			vs = append(vs, V{"C03", fmt.Sprintf("SUBACK-not-translated|code=%d", code), fmt.Sprintf("broker %s was not passed to the client", q.MQ), q.Seq})
			continue
		}
		s := snSuback[nSuback]
		nSuback++
		sub, known := subByID[q.MQ.MsgID]
		if s.SN.MsgID != q.MQ.MsgID {
			vs = append(vs, V{"C03", "SUBACK-msgid-differs", fmt.Sprintf("broker %s was passed on as %s", q.MQ, s.SN), s.Seq})
			continue
		}
		accepted := s.SN.RC == 0
		if accepted != (code <= 2) {
			vs = append(vs, V{"C03", fmt.Sprintf("SUBACK-code|broker=%#x|sn=%d", code, s.SN.RC), fmt.Sprintf("broker SUBACK return code %#x was reported to the client as return code %d", code, s.SN.RC), s.Seq})
			continue
		}
		if !accepted || !known {
			continue
		}
		if s.SN.QoS != code {
			vs = append(vs, V{"C03", fmt.Sprintf("SUBACK-granted-qos|granted=%d|sn=%d", code, s.SN.QoS), fmt.Sprintf("broker granted QoS %d, the client was told QoS %d (%s)", code, s.SN.QoS, s.SN), s.Seq})
		}
		switch {
		case sub.sn.TIT == 0 && !hasWild(sub.name):
			if s.SN.TopicID == 0 || s.SN.TopicID == 0xFFFF {
				vs = append(vs, V{"C03", "SUBACK-topicid|string", fmt.Sprintf("SUBACK for the string subscription %q carries topic ID %d", sub.name, s.SN.TopicID), s.Seq})
			}
		case sub.sn.TIT == 0 || sub.sn.TIT == 2:
			if s.SN.TopicID != 0 {
				vs = append(vs, V{"C03", "SUBACK-topicid|wildcard-or-short", fmt.Sprintf("SUBACK for %s carries topic ID %d instead of 0", sub.sn, s.SN.TopicID), s.Seq})
			}
		case sub.sn.TIT == 1:
			if s.SN.TopicID != sub.sn.TopicID {
				vs = append(vs, V{"C03", "SUBACK-topicid|predefined", fmt.Sprintf("SUBACK for %s carries topic ID %d", sub.sn, s.SN.TopicID), s.Seq})
			}
		}
	}
	return
}

func titClass(p *snref.Pkt) string {
	switch {
	case p.TIT == 0 && hasWild(p.Name):
		return "wildcard"
	case p.TIT == 0:
		return "string"
	case p.TIT == 1:
		return "predefined"
	case p.TIT == 2:
		return "short"
	}
	return "tit3"
}

// ---------------------------------------------------------------- C04

// C04: topic IDs handed out are unique, in range, not predefined, never reassigned; exhaustion is refused for good.
func C04(items []Item, pre Predef) (vs []V, checked int) {
	m := newTopicModel(pre)
	handed := map[uint16]string{}
	exhausted := false // a new-name allocation has been refused
	names := map[string]bool{}
	hand := func(it Item, id uint16, name, how string) {
		checked++
		if id < 1 || id > 0xFFFE {
			vs = append(vs, V{"C04", "id-out-of-range|" + how, fmt.Sprintf("%s handed out topic ID %#04x for %q", how, id, name), it.Seq})
			return
		}
		if pre.Visible(m.clientID, id) {
			pn, _ := pre.Name(m.clientID, id)
			vs = append(vs, V{"C04", "collides-with-predefined|" + how, fmt.Sprintf("%s handed out topic ID %d for %q, which is the predefined ID of %q for client %q", how, id, name, pn, m.clientID), it.Seq})
		}
		if old, ok := handed[id]; ok && old != name {
			cls := "before-exhaustion"
			if exhausted {
				cls = "after-exhaustion"
			}
			vs = append(vs, V{"C04", "id-reassigned|" + how + "|" + cls, fmt.Sprintf("topic ID %d, handed out for %q, was handed out again for %q by %s", id, old, name, how), it.Seq})
			return
		}
		if exhausted && !names[name] {
			vs = append(vs, V{"C04", "served-after-exhaustion|" + how, fmt.Sprintf("after the ID space was reported exhausted, %s served the new name %q with ID %d", how, name, id), it.Seq})
		}
		handed[id] = name
		names[name] = true
	}
	for _, it := range items {
		// look at the pending maps before feed consumes them
		if it.Kind == world.SNOut && it.SN != nil && it.SNErr == nil {
			p := it.SN
			switch p.Type {
			case snref.REGACK:
				if n, ok := m.pendReg[p.MsgID]; ok {
					if p.RC == 0 {
						hand(it, p.TopicID, n, "REGACK")
					} else if p.RC == 2 && !names[n] && !hasWild(n) {
						checked++
						exhausted = true
					}
				}
			case snref.SUBACK:
				if s, ok := m.pendSub[p.MsgID]; ok && s.TIT == 0 && s.HasName && !hasWild(s.Name) {
					if p.RC == 0 && p.TopicID != 0 {
						hand(it, p.TopicID, s.Name, "SUBACK")
					} else if p.RC == 2 {
						checked++
						exhausted = true
					}
				}
			case snref.REGISTER:
				hand(it, p.TopicID, p.Name, "gateway-REGISTER")
			}
		}
		m.feed(it)
	}
	return
}

// ---------------------------------------------------------------- C11

// C11: nothing is sent to a sleeping client; what was held back is delivered
// once, in order, between the waking PINGREQ and its PINGRESP; after that
// PINGRESP the client is asleep again until CONNECT or DISCONNECT.
func C11(items []Item, pre Predef) (vs []V, checked int) {
	const (
		stOther  = iota // disconnected / active
		stAsleep        // inside a sleep window: the gateway must be silent
		stWaking        // between a waking PINGREQ and its PINGRESP
	)
	st := stOther
	sleepReq := false
	cycle := 0
	activePings := 0 // PINGREQs (without client ID) of the current active phase not answered yet
	type inj struct {
		it       Item
		needsReg bool
		cycle    int
	}
	var injs []inj
	type ackInj struct {
		it    Item
		typ   byte // MQTT-SN type expected
		mid   uint16
		cycle int
	}
	var acks []ackInj
	ackSeen := map[[3]int]bool{} // (sn type, msg id) delivered to the client, keyed with the cycle it was seen in
	m := newTopicModel(pre)
	firstDelivery := map[string]Item{}
	deliveries := map[string]int{} // non-DUP copies
	copies := map[string]int{}     // all copies
	deliveredInCycle := map[string]int{}
	dead := false
	for _, it := range items {
		m.feed(it)
		if it.Kind == world.Note || it.Kind == world.End {
			dead = true
		}
		if dead {
			continue
		}
		switch {
		case it.Kind == world.SNIn && it.SN != nil && it.SNErr == nil && it.delivered():
			p := it.SN
			switch p.Type {
			case snref.DISCONNECT:
				if p.HasDur && p.Duration > 0 {
					sleepReq = true
					if st == stAsleep {
						// the client is up to repeat/prolong its sleep request: the reply may be sent
						st = stWaking
					}
				} else {
					st = stOther
					dead = true
				}
			case snref.PINGREQ:
				if st == stAsleep {
					st = stWaking
					cycle++
				} else if st == stOther && len(p.ClientID) == 0 {
					activePings++
				}
			case snref.CONNECT:
				if st != stOther {
					st = stOther
				}
			}
		case it.Kind == world.SNOut:
			p := it.SN
			if st == stOther && cycle > 0 && p != nil && p.Type == snref.PINGRESP {
				// back in the active state after at least one sleep: a PINGRESP answers a PINGREQ of this active
				// phase; the answer to a ping that was outstanding when the client fell asleep is dropped, and the
				// gateway's own pings (at wake-up, at CONNECT) are none of the client's business
				checked++
				if activePings == 0 {
					vs = append(vs, V{"C11", "pingresp-without-pingreq|active-after-sleep", fmt.Sprintf("gateway sent a PINGRESP to the active client which has no PINGREQ outstanding (after sleep cycle %d)", cycle), it.Seq})
				} else {
					activePings--
				}
			}
			if st == stAsleep {
				checked++
				vs = append(vs, V{"C11", "sent-while-asleep|" + typeOf(it.B) + fmt.Sprintf("|cycle=%d", min(cycle, 2)), fmt.Sprintf("gateway sent %v to a sleeping client (sleep cycle %d)", p, cycle+1), it.Seq})
			}
			if p == nil {
				break
			}
			switch p.Type {
			case snref.DISCONNECT:
				if sleepReq {
					sleepReq = false
					activePings = 0
					if st != stAsleep {
						st = stAsleep
					}
				} else {
					dead = true
				}
			case snref.PINGRESP:
				if st == stWaking {
					st = stAsleep
				}
			case snref.PUBACK, snref.PUBREC, snref.PUBCOMP, snref.SUBACK, snref.UNSUBACK:
				ackSeen[[3]int{int(p.Type), int(p.MsgID), 0}] = true
			case snref.PUBLISH:
				k := string(p.Data)
				copies[k]++
				if !p.DUP {
					deliveries[k]++
				}
				if _, ok := firstDelivery[k]; !ok {
					firstDelivery[k] = it
					deliveredInCycle[k] = cycle
				}
			}
		case it.isMQ(world.MQIn, mqttref.PUBLISH):
			if st == stAsleep || st == stWaking {
				_, _, ok := lookupForBroker(m, it.MQ.Topic)
				injs = append(injs, inj{it, !ok, cycle})
			}
		case it.Kind == world.MQIn && it.MQ != nil && st == stAsleep:
			// acknowledgement of an exchange the client started before it fell asleep
			var ty byte
			switch it.MQ.Type {
			case mqttref.PUBACK:
				ty = snref.PUBACK
			case mqttref.PUBREC:
				ty = snref.PUBREC
			case mqttref.PUBCOMP:
				ty = snref.PUBCOMP
			case mqttref.SUBACK:
				ty = snref.SUBACK
			case mqttref.UNSUBACK:
				ty = snref.UNSUBACK
			}
			if ty != 0 {
				delete(ackSeen, [3]int{int(ty), int(it.MQ.MsgID), 0})
				acks = append(acks, ackInj{it, ty, it.MQ.MsgID, cycle})
			}
		}
	}
	for _, a := range acks {
		if cycle-a.cycle < 1 {
			continue
		}
		checked++
		if !ackSeen[[3]int{int(a.typ), int(a.mid), 0}] {
			vs = append(vs, V{"C11", "buffered-ack-lost|" + snref.TypeName(a.typ), fmt.Sprintf("broker %s arrived while the client was asleep (cycle %d) and no %s(%d) was delivered although the client woke up %d more time(s)", a.it.MQ, a.cycle+1, snref.TypeName(a.typ), a.mid, cycle-a.cycle), a.it.Seq})
		}
	}
	// delivery of what was injected while asleep
	lastSeq := -1
	for _, in := range injs {
		k := string(in.it.MQ.Payload)
		// only judge injections that were followed by enough wake-ups
		need := 1
		if in.needsReg {
			need = 2
		}
		if cycle-in.cycle < need {
			continue
		}
		checked++
		cls := fmt.Sprintf("qos=%d|needsreg=%v", in.it.MQ.QoS, in.needsReg)
		n := deliveries[k]
		if copies[k] == 0 {
			vs = append(vs, V{"C11", "buffered-message-lost|" + cls, fmt.Sprintf("broker %s arrived while the client was asleep (cycle %d) and was never delivered although the client woke up %d more time(s)", in.it.MQ, in.cycle+1, cycle-in.cycle), in.it.Seq})
			continue
		}
		if n > 1 {
			vs = append(vs, V{"C11", "buffered-message-duplicated|" + cls, fmt.Sprintf("broker %s was delivered %d times (DUP retransmissions not counted)", in.it.MQ, n), firstDelivery[k].Seq})
		}
		if !in.needsReg {
			fd := firstDelivery[k]
			if fd.Seq < lastSeq {
				vs = append(vs, V{"C11", "buffered-messages-reordered|" + cls, fmt.Sprintf("broker %s was delivered before a message that the broker had sent earlier", in.it.MQ), fd.Seq})
			}
			lastSeq = fd.Seq
		}
	}
	return
}

func min(a, b int) int {
	if a < b {
		return a
	}
	return b
}

// lookupForBroker: does the client already have an ID for this name (short, predefined or confirmed registration)?
func lookupForBroker(m *topicModel, name string) (uint8, uint16, bool) {
	if len(name) == 2 {
		return 2, snref.ShortID(name), true
	}
	for id, n := range m.definite {
		if n == name {
			return 0, id, true
		}
	}
	for _, c := range []string{m.clientID, "*"} {
		for id, n := range m.pre[c] {
			if n == name {
				if rn, ok := m.pre.Name(m.clientID, id); ok && rn == name {
					return 1, id, true
				}
			}
		}
	}
	return 0, 0, false
}
