// Package mqttref is an independent MQTT 3.1.1 codec and per-packet validator
// written from the OASIS specification. It shares no code with paho.
package mqttref

import (
	"errors"
	"fmt"
	"strings"
)

const (
	CONNECT     = 1
	CONNACK     = 2
	PUBLISH     = 3
	PUBACK      = 4
	PUBREC      = 5
	PUBREL      = 6
	PUBCOMP     = 7
	SUBSCRIBE   = 8
	SUBACK      = 9
	UNSUBSCRIBE = 10
	UNSUBACK    = 11
	PINGREQ     = 12
	PINGRESP    = 13
	DISCONNECT  = 14
)

var names = []string{"RESERVED0", "CONNECT", "CONNACK", "PUBLISH", "PUBACK", "PUBREC", "PUBREL", "PUBCOMP",
	"SUBSCRIBE", "SUBACK", "UNSUBSCRIBE", "UNSUBACK", "PINGREQ", "PINGRESP", "DISCONNECT", "RESERVED15"}

func TypeName(t byte) string { return names[t&15] }

// Pkt is a flat record of an MQTT control packet.
type Pkt struct {
	Type   byte
	HFlags byte // low nibble of byte 1
	Raw    []byte

	// PUBLISH
	Dup    bool
	QoS    byte
	Retain bool
	Topic  string
	MsgID  uint16
	HasID  bool
	Payload []byte

	// CONNECT
	ProtoName  string
	ProtoLevel byte
	CFlags     byte
	KeepAlive  uint16
	ClientID   string
	WillTopic  string
	WillMsg    []byte
	User       string
	Password   []byte
	HasWillT   bool // a will topic field is present in the payload
	HasUser    bool
	HasPass    bool

	// CONNACK
	SessionPresent bool
	RC             byte

	// SUBSCRIBE / UNSUBSCRIBE / SUBACK
	Filters []string
	QoSs    []byte
	Codes   []byte

	// Problems found while parsing the body (malformed per spec). Empty when OK.
	Problems []string
}

func (p *Pkt) String() string {
	s := TypeName(p.Type)
	switch p.Type {
	case CONNECT:
		return fmt.Sprintf("%s(id=%q ka=%d flags=%#02x willT=%q willM=%q user=%q pw=%q)", s, p.ClientID, p.KeepAlive, p.CFlags, p.WillTopic, p.WillMsg, p.User, p.Password)
	case CONNACK:
		return fmt.Sprintf("%s(rc=%d)", s, p.RC)
	case PUBLISH:
		pl := p.Payload
		if len(pl) > 24 {
			pl = pl[:24]
		}
		return fmt.Sprintf("%s(topic=%q mid=%d qos=%d dup=%v ret=%v %q)", s, p.Topic, p.MsgID, p.QoS, p.Dup, p.Retain, pl)
	case PUBACK, PUBREC, PUBREL, PUBCOMP, UNSUBACK:
		return fmt.Sprintf("%s(mid=%d)", s, p.MsgID)
	case SUBSCRIBE:
		return fmt.Sprintf("%s(mid=%d %q qos=%v)", s, p.MsgID, p.Filters, p.QoSs)
	case UNSUBSCRIBE:
		return fmt.Sprintf("%s(mid=%d %q)", s, p.MsgID, p.Filters)
	case SUBACK:
		return fmt.Sprintf("%s(mid=%d codes=%v)", s, p.MsgID, p.Codes)
	}
	return s
}

var ErrIncomplete = errors.New("mqttref: incomplete packet")
var ErrVarint = errors.New("mqttref: malformed remaining length")

// Next splits one packet off the front of the stream. It returns the packet
// and the number of bytes consumed, or ErrIncomplete when more bytes are needed.
func Next(stream []byte) (*Pkt, int, error) {
	if len(stream) < 2 {
		return nil, 0, ErrIncomplete
	}
	rl, i, mult := 0, 1, 1
	for {
		if i >= len(stream) {
			return nil, 0, ErrIncomplete
		}
		c := stream[i]
		rl += int(c&0x7f) * mult
		i++
		if c&0x80 == 0 {
			break
		}
		mult *= 128
		if i > 4 {
			return nil, 0, ErrVarint
		}
	}
	if len(stream) < i+rl {
		return nil, 0, ErrIncomplete
	}
	p := &Pkt{Type: stream[0] >> 4, HFlags: stream[0] & 15, Raw: stream[:i+rl]}
	p.parse(stream[i : i+rl])
	return p, i + rl, nil
}

// ParseAll parses a complete stream; trailing garbage/incomplete bytes are reported.
func ParseAll(stream []byte) (pkts []*Pkt, rest []byte, err error) {
	for len(stream) > 0 {
		p, n, e := Next(stream)
		if e != nil {
			return pkts, stream, e
		}
		pkts = append(pkts, p)
		stream = stream[n:]
	}
	return pkts, nil, nil
}

type rd struct {
	b   []byte
	bad bool
}

func (r *rd) u8() byte {
	if len(r.b) < 1 {
		r.bad = true
		return 0
	}
	v := r.b[0]
	r.b = r.b[1:]
	return v
}
func (r *rd) u16() uint16 {
	if len(r.b) < 2 {
		r.bad = true
		r.b = nil
		return 0
	}
	v := uint16(r.b[0])<<8 | uint16(r.b[1])
	r.b = r.b[2:]
	return v
}
func (r *rd) bin() []byte {
	n := int(r.u16())
	if r.bad || len(r.b) < n {
		r.bad = true
		r.b = nil
		return nil
	}
	v := r.b[:n]
	r.b = r.b[n:]
	return v
}

func (p *Pkt) problem(f string, a ...interface{}) {
	p.Problems = append(p.Problems, fmt.Sprintf(f, a...))
}

func (p *Pkt) parse(body []byte) {
	r := &rd{b: body}
	switch p.Type {
	case CONNECT:
		p.ProtoName = string(r.bin())
		p.ProtoLevel = r.u8()
		p.CFlags = r.u8()
		p.KeepAlive = r.u16()
		p.ClientID = string(r.bin())
		if p.CFlags&0x04 != 0 {
			p.HasWillT = true
			p.WillTopic = string(r.bin())
			p.WillMsg = r.bin()
		}
		if p.CFlags&0x80 != 0 {
			p.HasUser = true
			p.User = string(r.bin())
		}
		if p.CFlags&0x40 != 0 {
			p.HasPass = true
			p.Password = r.bin()
		}
	case CONNACK:
		p.SessionPresent = r.u8()&1 != 0
		p.RC = r.u8()
	case PUBLISH:
		p.Dup = p.HFlags&8 != 0
		p.QoS = (p.HFlags >> 1) & 3
		p.Retain = p.HFlags&1 != 0
		p.Topic = string(r.bin())
		if p.QoS > 0 {
			p.MsgID = r.u16()
			p.HasID = true
		}
		p.Payload = r.b
		r.b = nil
	case PUBACK, PUBREC, PUBREL, PUBCOMP, UNSUBACK:
		p.MsgID = r.u16()
		p.HasID = true
	case SUBSCRIBE:
		p.MsgID = r.u16()
		p.HasID = true
		for len(r.b) > 0 && !r.bad {
			p.Filters = append(p.Filters, string(r.bin()))
			p.QoSs = append(p.QoSs, r.u8())
		}
	case UNSUBSCRIBE:
		p.MsgID = r.u16()
		p.HasID = true
		for len(r.b) > 0 && !r.bad {
			p.Filters = append(p.Filters, string(r.bin()))
		}
	case SUBACK:
		p.MsgID = r.u16()
		p.HasID = true
		p.Codes = append(p.Codes, r.b...)
		r.b = nil
	case PINGREQ, PINGRESP, DISCONNECT:
	default:
		p.problem("R2.type: reserved packet type %d", p.Type)
		return
	}
	if r.bad {
		p.problem("R2.length: body shorter than its fields announce")
	} else if len(r.b) != 0 {
		p.problem("R2.length: %d trailing bytes after the last field", len(r.b))
	}
}

// ValidateClientPacket checks a packet a client (here: the gateway) sent to a
// server against the per-packet rules of MQTT 3.1.1. Rule ids: R1.* are the
// rules the property names (QoS range, topic/filter emptiness and wildcards,
// will flag/topic); R2.* are other per-packet well-formedness rules.
func ValidateClientPacket(p *Pkt) []string {
	out := append([]string{}, p.Problems...)
	add := func(f string, a ...interface{}) { out = append(out, fmt.Sprintf(f, a...)) }
	wantFlags := func(v byte) {
		if p.HFlags != v {
			add("R2.hflags: %s fixed-header flags %#x, must be %#x", TypeName(p.Type), p.HFlags, v)
		}
	}
	switch p.Type {
	case CONNECT:
		wantFlags(0)
		if p.ProtoName != "MQTT" || p.ProtoLevel != 4 {
			add("R2.proto: protocol %q level %d", p.ProtoName, p.ProtoLevel)
		}
		if p.CFlags&1 != 0 {
			add("R2.connect.reserved: reserved connect flag set")
		}
		will := p.CFlags&0x04 != 0
		wq := (p.CFlags >> 3) & 3
		if wq == 3 {
			add("R1.qos: will QoS 3")
		}
		if will && p.WillTopic == "" {
			add("R1.will: will flag set with empty will topic")
		}
		if !will && (wq != 0 || p.CFlags&0x20 != 0) {
			add("R2.connect.will: will QoS/retain set without will flag")
		}
		if will && hasWild(p.WillTopic) {
			add("R2.connect.willtopic: will topic contains a wildcard")
		}
		if p.CFlags&0x40 != 0 && p.CFlags&0x80 == 0 {
			add("R2.connect.password: password flag without user name flag")
		}
	case PUBLISH:
		if p.QoS == 3 {
			add("R1.qos: PUBLISH QoS 3")
		}
		if p.Topic == "" {
			add("R1.topic.empty: PUBLISH with empty topic name")
		}
		if hasWild(p.Topic) {
			add("R1.topic.wildcard: PUBLISH topic %q contains a wildcard", p.Topic)
		}
		if p.QoS == 0 && p.Dup {
			add("R2.publish.dup0: DUP set in a QoS 0 PUBLISH")
		}
		if p.QoS > 0 && p.QoS < 3 && p.MsgID == 0 {
			add("R2.msgid0: PUBLISH QoS>0 with packet identifier 0")
		}
	case PUBACK, PUBREC, PUBCOMP:
		wantFlags(0)
	case PUBREL:
		wantFlags(2)
	case SUBSCRIBE:
		wantFlags(2)
		if len(p.Filters) == 0 {
			add("R1.filter.empty: SUBSCRIBE without topic filter")
		}
		for i, f := range p.Filters {
			if f == "" {
				add("R1.filter.empty: SUBSCRIBE with empty topic filter")
			}
			if i < len(p.QoSs) && p.QoSs[i] > 2 {
				add("R1.qos: SUBSCRIBE requested QoS %d", p.QoSs[i])
			}
		}
		if p.MsgID == 0 {
			add("R2.msgid0: SUBSCRIBE with packet identifier 0")
		}
	case UNSUBSCRIBE:
		wantFlags(2)
		if len(p.Filters) == 0 {
			add("R1.filter.empty: UNSUBSCRIBE without topic filter")
		}
		for _, f := range p.Filters {
			if f == "" {
				add("R1.filter.empty: UNSUBSCRIBE with empty topic filter")
			}
		}
		if p.MsgID == 0 {
			add("R2.msgid0: UNSUBSCRIBE with packet identifier 0")
		}
	case PINGREQ, DISCONNECT:
		wantFlags(0)
	case CONNACK, SUBACK, UNSUBACK, PINGRESP:
		add("R2.direction: %s sent by a client", TypeName(p.Type))
	}
	return out
}

func hasWild(s string) bool { return strings.ContainsAny(s, "+#") }

// ---- encoder ----

func varint(n int) []byte {
	var b []byte
	for {
		c := byte(n % 128)
		n /= 128
		if n > 0 {
			c |= 0x80
		}
		b = append(b, c)
		if n == 0 {
			return b
		}
	}
}

func frame(first byte, body []byte) []byte {
	out := append([]byte{first}, varint(len(body))...)
	return append(out, body...)
}

func bin(b []byte) []byte { return append([]byte{byte(len(b) >> 8), byte(len(b))}, b...) }
func u16(v uint16) []byte { return []byte{byte(v >> 8), byte(v)} }

func EncConnack(sp bool, rc byte) []byte {
	f := byte(0)
	if sp {
		f = 1
	}
	return frame(CONNACK<<4, []byte{f, rc})
}
func EncPublish(topic string, mid uint16, qos byte, dup, retain bool, payload []byte) []byte {
	h := byte(PUBLISH<<4) | (qos&3)<<1
	if dup {
		h |= 8
	}
	if retain {
		h |= 1
	}
	b := bin([]byte(topic))
	if qos > 0 {
		b = append(b, u16(mid)...)
	}
	b = append(b, payload...)
	return frame(h, b)
}
func EncAck(t byte, mid uint16) []byte {
	h := t << 4
	if t == PUBREL {
		h |= 2
	}
	return frame(h, u16(mid))
}
func EncSuback(mid uint16, codes ...byte) []byte {
	return frame(SUBACK<<4, append(u16(mid), codes...))
}
func EncPingresp() []byte { return []byte{PINGRESP << 4, 0} }
func EncSimple(t byte) []byte { return []byte{t << 4, 0} }

// EncConnect/EncSubscribe/EncUnsubscribe exist for hostile-broker workloads and self-tests.
func EncConnect(id string, ka uint16, cflags byte, willT string, willM []byte, user string, pw []byte) []byte {
	b := bin([]byte("MQTT"))
	b = append(b, 4, cflags)
	b = append(b, u16(ka)...)
	b = append(b, bin([]byte(id))...)
	if cflags&4 != 0 {
		b = append(b, bin([]byte(willT))...)
		b = append(b, bin(willM)...)
	}
	if cflags&0x80 != 0 {
		b = append(b, bin([]byte(user))...)
	}
	if cflags&0x40 != 0 {
		b = append(b, bin(pw)...)
	}
	return frame(CONNECT<<4, b)
}
func EncSubscribe(mid uint16, filter string, qos byte) []byte {
	b := append(u16(mid), bin([]byte(filter))...)
	b = append(b, qos)
	return frame(SUBSCRIBE<<4|2, b)
}
func EncUnsubscribe(mid uint16, filter string) []byte {
	b := append(u16(mid), bin([]byte(filter))...)
	return frame(UNSUBSCRIBE<<4|2, b)
}

// Match implements MQTT 3.1.1 topic filter matching (4.7): levels split on '/',
// '+' matches exactly one level (which may be empty), '#' matches the rest
// including the parent level.
func Match(filter, topic string) bool {
	f := strings.Split(filter, "/")
	t := strings.Split(topic, "/")
	for i, fl := range f {
		if fl == "#" {
			return true
		}
		if i >= len(t) {
			return false
		}
		if fl != "+" && fl != t[i] {
			return false
		}
	}
	return len(f) == len(t)
}
