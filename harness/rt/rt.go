// Package rt is the run-time glue between a check (a Go test function) and
// the driver: environment, case journal, violations, counters, samples.
//
// Journal protocol (JSON lines in $VERIF_OUT/journal.jsonl):
//   {"t":"case","i":N,"desc":"..."}          written BEFORE case N runs
//   {"t":"done","i":N,"evals":k,"keys":[..],"nd":m}
//   {"t":"viol","i":N,"sig":"...","what":"...","detail":{...}}
//   {"t":"count","name":"...","n":k}
//   {"t":"sample","v":...}
//   {"t":"inconclusive","i":N,"why":"..."}
//   {"t":"summary", ...}                      written when the case list is exhausted
// A process that dies leaves "case" lines without "done": on restart the same
// journal is re-read, finished cases are skipped, unfinished ones are retried
// serially (a "retry" line precedes each) so that the culprit is pinned down.
package rt

import (
	"bufio"
	"encoding/json"
	"fmt"
	"hash/fnv"
	"math/rand"
	"os"
	"path/filepath"
	"runtime"
	"strconv"
	"strings"
	"sync"
	"sync/atomic"
	"testing"
	"time"
)

type Run struct {
	Prop  string
	Tier  string
	Seed  int64
	Out   string
	Only  int // >=0: run only this case (replay)
	Reps  int // replay repetitions

	mu       sync.Mutex
	f        *os.File
	started  map[int]bool
	done     map[int]bool
	retried  map[int]bool
	nsample  int
	t0       time.Time
	counters map[string]int64
	observed map[string]bool

	// DeadlockIsViolation: a bubble in which nothing can ever run again because a goroutine inside
	// bisquitt waits for a sync.Mutex (see deadlockMonitor) is a violation of this run's property
	// (set by the checks whose property says that sessions / API calls end); otherwise inconclusive.
	DeadlockIsViolation bool
	running             map[int64]*Case // runner goroutine id -> case in progress
}

func envInt(k string, d int64) int64 {
	if v := os.Getenv(k); v != "" {
		if n, err := strconv.ParseInt(v, 10, 64); err == nil {
			return n
		}
	}
	return d
}

// Start reads the environment and the existing journal.
func Start(t *testing.T, prop string) *Run {
	r := &Run{Prop: prop, Tier: os.Getenv("VERIF_TIER"), Seed: envInt("VERIF_SEED", 1),
		Out: os.Getenv("VERIF_OUT"), Only: int(envInt("VERIF_ONLY", -1)), Reps: int(envInt("VERIF_REPS", 1)),
		started: map[int]bool{}, done: map[int]bool{}, retried: map[int]bool{}, t0: time.Now(),
		counters: map[string]int64{}, running: map[int64]*Case{}}
	if r.Tier == "" {
		r.Tier = "quick"
	}
	if r.Out == "" {
		r.Out = t.TempDir()
	}
	os.MkdirAll(r.Out, 0o755)
	jp := filepath.Join(r.Out, "journal.jsonl")
	if f, err := os.Open(jp); err == nil {
		sc := bufio.NewScanner(f)
		sc.Buffer(make([]byte, 1<<20), 1<<28)
		for sc.Scan() {
			var l struct {
				T string `json:"t"`
				I int    `json:"i"`
			}
			if json.Unmarshal(sc.Bytes(), &l) != nil {
				continue
			}
			switch l.T {
			case "case":
				r.started[l.I] = true
			case "done", "inconclusive":
				r.done[l.I] = true
			case "retry":
				r.retried[l.I] = true
			}
		}
		f.Close()
	}
	f, err := os.OpenFile(jp, os.O_APPEND|os.O_CREATE|os.O_WRONLY, 0o644)
	if err != nil {
		t.Fatalf("journal: %v", err)
	}
	r.f = f
	go r.deadlockMonitor()
	return r
}

func goid() int64 {
	var b [64]byte
	n := runtime.Stack(b[:], false)
	f := strings.Fields(string(b[:n]))
	if len(f) > 1 {
		id, _ := strconv.ParseInt(f[1], 10, 64)
		return id
	}
	return -1
}

// deadlockMonitor runs outside every bubble. A synctest clock cannot advance while a goroutine of
// the bubble is blocked on a sync.Mutex (not a "durable" block), so a mutex that is never released
// inside the code under test freezes the case until the driver's wall-clock watchdog. The monitor
// samples all goroutine stacks; a bubble in which EVERY goroutine is blocked durably or on a
// sync mutex, at least one of them on a mutex below a bisquitt frame, identically in two samples
// 4 s apart, can never make progress again (nothing in it can run, time cannot advance, and only
// its own goroutines touch its mutexes): that is a deadlock, decided on goroutine states, not on
// elapsed time. The case is journaled (violation or inconclusive, see DeadlockIsViolation) and the
// process exits with code 3 so that the driver resumes with the next case.
func (r *Run) deadlockMonitor() {
	prev := map[string]string{}
	for {
		time.Sleep(4 * time.Second)
		buf := make([]byte, 32<<20)
		n := runtime.Stack(buf, true)
		type g struct {
			id    int64
			state string
			stack string
		}
		bubbles := map[string][]g{}
		for _, b := range strings.Split(string(buf[:n]), "\n\n") {
			if !strings.HasPrefix(b, "goroutine ") {
				continue
			}
			i, j := strings.Index(b, "["), strings.Index(b, "]:")
			if i < 0 || j < i {
				continue
			}
			id, _ := strconv.ParseInt(strings.TrimSpace(b[len("goroutine "):i]), 10, 64)
			var state, tag string
			for k, f := range strings.Split(b[i+1:j], ", ") {
				if k == 0 {
					state = f
				}
				if strings.HasPrefix(f, "synctest bubble ") {
					tag = f
				}
			}
			if tag == "" {
				continue
			}
			bubbles[tag] = append(bubbles[tag], g{id, state, b})
		}
		cur := map[string]string{}
		for tag, gs := range bubbles {
			stuck, site, fp := true, "", ""
			var runner int64 = -1
			var stacks []string
			for _, x := range gs {
				fp += fmt.Sprintf("%d:%s;", x.id, x.state)
				switch {
				case strings.HasPrefix(x.state, "synctest.Run"):
					runner = x.id
				case strings.Contains(x.state, "(durable)"):
				case x.state == "sync.Mutex.Lock" || x.state == "sync.RWMutex.Lock" || x.state == "sync.RWMutex.RLock":
					for _, l := range strings.Split(x.stack, "\n") {
						l = strings.TrimSpace(l)
						if strings.HasPrefix(l, "github.com/energomonitor/bisquitt/") {
							if site == "" {
								site = strings.TrimPrefix(l, "github.com/energomonitor/bisquitt/")
								if k := strings.LastIndex(site, "("); k > 0 {
									site = site[:k]
								}
							}
							break
						}
					}
				default:
					stuck = false
				}
				if strings.Contains(x.stack, "github.com/energomonitor/bisquitt/") {
					st := x.stack
					if len(st) > 1500 {
						st = st[:1500]
					}
					stacks = append(stacks, st)
				}
			}
			if !stuck || site == "" || runner < 0 {
				continue
			}
			cur[tag] = fp
			if prev[tag] != fp {
				continue
			}
			r.mu.Lock()
			c := r.running[runner]
			r.mu.Unlock()
			if c == nil {
				continue
			}
			what := fmt.Sprintf("deadlock: every goroutine of the case is blocked and one waits for a mutex in %s that nobody can release any more (%d goroutines inside bisquitt)", site, len(stacks))
			if r.DeadlockIsViolation {
				c.Violation("deadlock|"+site, what, map[string]interface{}{"stacks": stacks})
			} else {
				c.Inconclusive(what)
			}
			c.MarkDone()
			r.ExitNow()
		}
		prev = cur
	}
}

func (r *Run) Thorough() bool { return r.Tier == "thorough" }

// N picks a size by tier.
func (r *Run) N(quick, thorough int) int {
	if r.Thorough() {
		return thorough
	}
	return quick
}

// Rand returns the PRNG for case i: a pure function of (seed, property, i).
func (r *Run) Rand(i int) *rand.Rand {
	h := fnv.New64a()
	fmt.Fprintf(h, "%s/%d/%d", r.Prop, r.Seed, i)
	return rand.New(rand.NewSource(int64(h.Sum64())))
}

func (r *Run) line(v map[string]interface{}) {
	b, err := json.Marshal(v)
	if err != nil {
		b, _ = json.Marshal(map[string]interface{}{"t": "error", "err": err.Error()})
	}
	b = append(b, '\n')
	r.mu.Lock()
	r.f.Write(b)
	r.mu.Unlock()
}

// Case handle.
type Case struct {
	R     *Run
	I     int
	Desc  string
	evals int
	keys  []string
	nd    int
	viol  int
	sigs  map[string]int
}

func (c *Case) Rand() *rand.Rand { return c.R.Rand(c.I) }

// Evals adds n evaluations to the case (default is 1 if never called).
func (c *Case) Evals(n int) { c.evals += n }

// Key records a distinct non-trivial item observed in this case; keys are
// united across all cases by the driver.
func (c *Case) Key(format string, a ...interface{}) {
	k := fmt.Sprintf(format, a...)
	if len(k) > 120 {
		h := fnv.New64a()
		h.Write([]byte(k))
		k = k[:100] + fmt.Sprintf("~%x", h.Sum64())
	}
	c.keys = append(c.keys, k)
}

// Distinct adds n items already known to be distinct, non-trivial and
// disjoint from every other case's (e.g. a slice of an exhaustive enumeration).
func (c *Case) Distinct(n int) { c.nd += n }

// Violation records a violation of the run's property found in this case.
func (c *Case) Violation(sig, what string, detail interface{}) {
	c.viol++
	if c.sigs == nil {
		c.sigs = map[string]int{}
	}
	c.sigs[sig]++
	if c.sigs[sig] > 2 {
		// keep the journal small: the first two witnesses per signature and case are enough.
		c.R.Count("violations_not_journaled", 1)
		return
	}
	c.R.line(map[string]interface{}{"t": "viol", "i": c.I, "sig": sig, "what": what, "detail": detail, "desc": c.Desc,
		"seed": c.R.Seed, "tier": c.R.Tier})
}

// ViolationFor records a violation of another property observed by a universal monitor (diagnostic for the driver).
func (c *Case) Inconclusive(why string) {
	c.R.line(map[string]interface{}{"t": "inconclusive", "i": c.I, "why": why, "desc": c.Desc})
}

func (c *Case) Violations() int { return c.viol }

// Each runs fn for every case index in [0,n), in parallel on `workers`
// goroutine-backed subtests, honouring the journal (skip finished cases,
// retry unfinished ones serially first) and VERIF_ONLY.
func (r *Run) Each(t *testing.T, n int, workers int, desc func(i int) string, fn func(t *testing.T, c *Case)) {
	runOne := func(t *testing.T, i int) {
		c := &Case{R: r, I: i}
		if desc != nil {
			c.Desc = desc(i)
		}
		r.line(map[string]interface{}{"t": "case", "i": i, "desc": c.Desc})
		id := goid()
		r.mu.Lock()
		r.running[id] = c
		r.mu.Unlock()
		fn(t, c)
		r.mu.Lock()
		delete(r.running, id)
		r.mu.Unlock()
		if c.evals == 0 {
			c.evals = 1
		}
		r.line(map[string]interface{}{"t": "done", "i": i, "evals": c.evals, "keys": dedup(c.keys), "nd": c.nd})
	}
	if r.Only >= 0 {
		for k := 0; k < r.Reps; k++ {
			runOne(t, r.Only)
		}
		return
	}
	// 1. retry unfinished cases serially.
	for i := 0; i < n; i++ {
		if r.started[i] && !r.done[i] {
			if r.retried[i] {
				// crashed twice: culprit, already reported by the driver.
				continue
			}
			r.line(map[string]interface{}{"t": "retry", "i": i})
			runOne(t, i)
		}
	}
	// 2. the rest in parallel.
	if workers <= 0 {
		workers = runtime.GOMAXPROCS(0)
	}
	var next int64 = -1
	t.Run("w", func(t *testing.T) {
		for w := 0; w < workers; w++ {
			t.Run(fmt.Sprintf("%d", w), func(t *testing.T) {
				t.Parallel()
				for {
					i := int(atomic.AddInt64(&next, 1))
					if i >= n {
						return
					}
					if r.started[i] {
						continue
					}
					runOne(t, i)
				}
			})
		}
	})
}

func dedup(k []string) []string {
	if len(k) < 2 {
		return k
	}
	m := map[string]bool{}
	var out []string
	for _, s := range k {
		if !m[s] {
			m[s] = true
			out = append(out, s)
		}
	}
	return out
}

// ExitNow ends the process after something was journaled that makes it
// impossible to go on (e.g. leaked goroutines keep a bubble from finishing).
// Exit code 3 tells the driver that this is deliberate; it restarts the run,
// which resumes after the cases already journaled.
func (r *Run) ExitNow() {
	r.mu.Lock()
	r.f.Sync()
	r.mu.Unlock()
	os.Exit(3)
}

// MarkDone journals the case as finished (used before ExitNow).
func (c *Case) MarkDone() {
	if c.evals == 0 {
		c.evals = 1
	}
	c.R.line(map[string]interface{}{"t": "done", "i": c.I, "evals": c.evals, "keys": dedup(c.keys), "nd": c.nd})
}

// Count adds to a named counter reported in the evidence.
func (r *Run) Count(name string, n int) {
	r.mu.Lock()
	r.counters[name] += int64(n)
	r.mu.Unlock()
}

// Observe records a value of something the monitors saw (an interleaving shape, an outcome of a
// race, ...). The driver reports, per name, how many DISTINCT values were observed in the whole run
// and a few examples. Values are deduplicated per process before they are journaled.
func (r *Run) Observe(name, value string) {
	if len(value) > 200 {
		h := fnv.New64a()
		h.Write([]byte(value))
		value = value[:160] + fmt.Sprintf("~%x", h.Sum64())
	}
	k := name + "\x00" + value
	r.mu.Lock()
	if r.observed == nil {
		r.observed = map[string]bool{}
	}
	seen := r.observed[k]
	if !seen && len(r.observed) < 200000 {
		r.observed[k] = true
	}
	r.mu.Unlock()
	if seen {
		return
	}
	r.line(map[string]interface{}{"t": "obs", "name": name, "v": value})
}

// Sample records an example case (the driver keeps the first few).
func (r *Run) Sample(v interface{}) {
	r.mu.Lock()
	r.nsample++
	n := r.nsample
	r.mu.Unlock()
	if n > 6 {
		return
	}
	r.line(map[string]interface{}{"t": "sample", "v": v})
}

// Finish writes counters and the summary line.
func (r *Run) Finish(rule string, extra map[string]interface{}) {
	r.mu.Lock()
	cs := map[string]int64{}
	for k, v := range r.counters {
		cs[k] = v
	}
	r.mu.Unlock()
	r.line(map[string]interface{}{"t": "summary", "rule": rule, "counters": cs, "extra": extra,
		"wall_s": time.Since(r.t0).Seconds(), "gomaxprocs": runtime.GOMAXPROCS(0)})
	r.f.Close()
}

// Hex helper for witnesses.
func Hex(b []byte) string {
	const d = "0123456789abcdef"
	var sb strings.Builder
	for _, c := range b {
		sb.WriteByte(d[c>>4])
		sb.WriteByte(d[c&15])
	}
	return sb.String()
}
