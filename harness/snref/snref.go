// Package snref is an independent MQTT-SN 1.2 (+ AUTH extension) codec written
// from the specification tables. It shares no code with bisquitt's packets
// packages and is used as the reference in oracles.
package snref

import (
	"errors"
	"fmt"
)

// Packet type codes (MQTT-SN 1.2, table 6; 0x03 AUTH is the v2.0-draft extension bisquitt uses).
const (
	ADVERTISE     = 0x00
	SEARCHGW      = 0x01
	GWINFO        = 0x02
	AUTH          = 0x03
	CONNECT       = 0x04
	CONNACK       = 0x05
	WILLTOPICREQ  = 0x06
	WILLTOPIC     = 0x07
	WILLMSGREQ    = 0x08
	WILLMSG       = 0x09
	REGISTER      = 0x0A
	REGACK        = 0x0B
	PUBLISH       = 0x0C
	PUBACK        = 0x0D
	PUBCOMP       = 0x0E
	PUBREC        = 0x0F
	PUBREL        = 0x10
	SUBSCRIBE     = 0x12
	SUBACK        = 0x13
	UNSUBSCRIBE   = 0x14
	UNSUBACK      = 0x15
	PINGREQ       = 0x16
	PINGRESP      = 0x17
	DISCONNECT    = 0x18
	WILLTOPICUPD  = 0x1A
	WILLTOPICRESP = 0x1B
	WILLMSGUPD    = 0x1C
	WILLMSGRESP   = 0x1D
)

var typeNames = map[byte]string{
	ADVERTISE: "ADVERTISE", SEARCHGW: "SEARCHGW", GWINFO: "GWINFO", AUTH: "AUTH", CONNECT: "CONNECT",
	CONNACK: "CONNACK", WILLTOPICREQ: "WILLTOPICREQ", WILLTOPIC: "WILLTOPIC", WILLMSGREQ: "WILLMSGREQ",
	WILLMSG: "WILLMSG", REGISTER: "REGISTER", REGACK: "REGACK", PUBLISH: "PUBLISH", PUBACK: "PUBACK",
	PUBCOMP: "PUBCOMP", PUBREC: "PUBREC", PUBREL: "PUBREL", SUBSCRIBE: "SUBSCRIBE", SUBACK: "SUBACK",
	UNSUBSCRIBE: "UNSUBSCRIBE", UNSUBACK: "UNSUBACK", PINGREQ: "PINGREQ", PINGRESP: "PINGRESP",
	DISCONNECT: "DISCONNECT", WILLTOPICUPD: "WILLTOPICUPD", WILLTOPICRESP: "WILLTOPICRESP",
	WILLMSGUPD: "WILLMSGUPD", WILLMSGRESP: "WILLMSGRESP",
}

// AllTypes lists the 28 defined packet types.
var AllTypes = []byte{ADVERTISE, SEARCHGW, GWINFO, AUTH, CONNECT, CONNACK, WILLTOPICREQ, WILLTOPIC,
	WILLMSGREQ, WILLMSG, REGISTER, REGACK, PUBLISH, PUBACK, PUBCOMP, PUBREC, PUBREL, SUBSCRIBE, SUBACK,
	UNSUBSCRIBE, UNSUBACK, PINGREQ, PINGRESP, DISCONNECT, WILLTOPICUPD, WILLTOPICRESP, WILLMSGUPD, WILLMSGRESP}

func TypeName(t byte) string {
	if n, ok := typeNames[t]; ok {
		return n
	}
	return fmt.Sprintf("TYPE%#02x", t)
}

// Flag bits (spec 5.3.4).
const (
	FlagDUP    = 0x80
	FlagQoS    = 0x60
	FlagRetain = 0x10
	FlagWill   = 0x08
	FlagClean  = 0x04
	FlagTIT    = 0x03
)

// FlagMask returns, for a packet type, the flag bits that type uses (spec 5.4.x).
func FlagMask(t byte) byte {
	switch t {
	case CONNECT:
		return FlagWill | FlagClean
	case WILLTOPIC, WILLTOPICUPD:
		return FlagQoS | FlagRetain
	case PUBLISH:
		return FlagDUP | FlagQoS | FlagRetain | FlagTIT
	case SUBSCRIBE:
		return FlagDUP | FlagQoS | FlagTIT
	case SUBACK:
		return FlagQoS
	case UNSUBSCRIBE:
		return FlagTIT
	}
	return 0
}

// Pkt is a flat record of every field any packet type can carry.
type Pkt struct {
	Type    byte
	Long    bool // 3-byte length form on the wire
	DeclLen int  // value of the Length field
	Size    int  // datagram size
	Body    []byte

	HasFlags bool
	Flags    byte
	DUP      bool
	QoS      uint8
	Retain   bool
	Will     bool
	Clean    bool
	TIT      uint8

	ProtoID  byte
	Duration uint16
	HasDur   bool
	TopicID  uint16
	MsgID    uint16
	RC       byte
	GwID     byte
	Radius   byte
	Reason   byte
	ClientID []byte
	Name     string // topic name / will topic / auth method
	HasName  bool   // for SUBSCRIBE/UNSUBSCRIBE: name form (TIT 0) was used
	Data     []byte // payload / will message / auth data / gateway address
}

func (p *Pkt) String() string {
	s := TypeName(p.Type)
	switch p.Type {
	case CONNECT:
		return fmt.Sprintf("%s(id=%q dur=%d will=%v clean=%v)", s, p.ClientID, p.Duration, p.Will, p.Clean)
	case CONNACK, WILLTOPICRESP, WILLMSGRESP:
		return fmt.Sprintf("%s(rc=%d)", s, p.RC)
	case WILLTOPIC, WILLTOPICUPD:
		return fmt.Sprintf("%s(%q qos=%d ret=%v)", s, p.Name, p.QoS, p.Retain)
	case WILLMSG, WILLMSGUPD:
		return fmt.Sprintf("%s(%q)", s, trunc(p.Data))
	case REGISTER:
		return fmt.Sprintf("%s(tid=%d mid=%d %q)", s, p.TopicID, p.MsgID, p.Name)
	case REGACK, PUBACK:
		return fmt.Sprintf("%s(tid=%d mid=%d rc=%d)", s, p.TopicID, p.MsgID, p.RC)
	case PUBLISH:
		return fmt.Sprintf("%s(tit=%d tid=%d mid=%d qos=%d dup=%v ret=%v %q)", s, p.TIT, p.TopicID, p.MsgID, p.QoS, p.DUP, p.Retain, trunc(p.Data))
	case PUBCOMP, PUBREC, PUBREL, UNSUBACK:
		return fmt.Sprintf("%s(mid=%d)", s, p.MsgID)
	case SUBSCRIBE, UNSUBSCRIBE:
		if p.HasName {
			return fmt.Sprintf("%s(mid=%d qos=%d dup=%v name=%q)", s, p.MsgID, p.QoS, p.DUP, p.Name)
		}
		return fmt.Sprintf("%s(mid=%d qos=%d dup=%v tit=%d tid=%d)", s, p.MsgID, p.QoS, p.DUP, p.TIT, p.TopicID)
	case SUBACK:
		return fmt.Sprintf("%s(tid=%d mid=%d rc=%d qos=%d)", s, p.TopicID, p.MsgID, p.RC, p.QoS)
	case PINGREQ:
		return fmt.Sprintf("%s(%q)", s, p.ClientID)
	case DISCONNECT:
		if p.HasDur {
			return fmt.Sprintf("%s(dur=%d)", s, p.Duration)
		}
		return s + "()"
	case AUTH:
		return fmt.Sprintf("%s(reason=%d method=%q data=%q)", s, p.Reason, p.Name, trunc(p.Data))
	}
	return s
}

func trunc(b []byte) []byte {
	if len(b) > 24 {
		return append(append([]byte{}, b[:24]...), '.', '.')
	}
	return b
}

func be16(b []byte) uint16 { return uint16(b[0])<<8 | uint16(b[1]) }

var (
	ErrShort   = errors.New("snref: datagram too short")
	ErrLength  = errors.New("snref: length field does not match datagram size")
	ErrType    = errors.New("snref: unknown packet type")
	ErrBody    = errors.New("snref: body length not allowed for this type")
	ErrLongFmt = errors.New("snref: 3-byte length form used for a packet of at most 255 bytes")
)

// ParseLoose parses a datagram by the spec layout, taking the header form
// from byte 0 (0x01 => 3-byte length) and the body from the actual bytes that
// follow the header. It does not require the Length field to equal the
// datagram size (the caller may check DeclLen/Size/Long itself).
func ParseLoose(b []byte) (*Pkt, error) {
	if len(b) < 2 {
		return nil, ErrShort
	}
	p := &Pkt{Size: len(b)}
	var body []byte
	if b[0] == 0x01 {
		if len(b) < 4 {
			return nil, ErrShort
		}
		p.Long = true
		p.DeclLen = int(be16(b[1:3]))
		p.Type = b[3]
		body = b[4:]
	} else {
		p.DeclLen = int(b[0])
		p.Type = b[1]
		body = b[2:]
	}
	p.Body = body
	if _, ok := typeNames[p.Type]; !ok {
		return p, ErrType
	}
	if err := p.parseBody(body); err != nil {
		return p, err
	}
	return p, nil
}

// Parse is the strict parser: ParseLoose plus Length field == datagram size.
func Parse(b []byte) (*Pkt, error) {
	p, err := ParseLoose(b)
	if err != nil {
		return p, err
	}
	if p.DeclLen != p.Size {
		return p, ErrLength
	}
	return p, nil
}

func (p *Pkt) flags(b byte) {
	p.HasFlags = true
	p.Flags = b
	p.DUP = b&FlagDUP != 0
	p.QoS = (b & FlagQoS) >> 5
	p.Retain = b&FlagRetain != 0
	p.Will = b&FlagWill != 0
	p.Clean = b&FlagClean != 0
	p.TIT = b & FlagTIT
}

func (p *Pkt) parseBody(b []byte) error {
	n := len(b)
	switch p.Type {
	case ADVERTISE:
		if n != 3 {
			return ErrBody
		}
		p.GwID = b[0]
		p.Duration = be16(b[1:3])
	case SEARCHGW:
		if n != 1 {
			return ErrBody
		}
		p.Radius = b[0]
	case GWINFO:
		if n < 1 {
			return ErrBody
		}
		p.GwID = b[0]
		p.Data = b[1:]
	case AUTH:
		if n < 2 {
			return ErrBody
		}
		p.Reason = b[0]
		ml := int(b[1])
		if n < 2+ml {
			return ErrBody
		}
		p.Name = string(b[2 : 2+ml])
		p.Data = b[2+ml:]
	case CONNECT:
		if n < 5 { // flags, protocol id, duration, client id of at least 1 byte
			return ErrBody
		}
		p.flags(b[0])
		p.ProtoID = b[1]
		p.Duration = be16(b[2:4])
		p.ClientID = b[4:]
	case CONNACK, WILLTOPICRESP, WILLMSGRESP:
		if n != 1 {
			return ErrBody
		}
		p.RC = b[0]
	case WILLTOPICREQ, WILLMSGREQ, PINGRESP:
		if n != 0 {
			return ErrBody
		}
	case WILLTOPIC, WILLTOPICUPD:
		// An empty WILLTOPIC(UPD) is just the header (spec 5.4.7).
		if n == 0 {
			return nil
		}
		if n == 1 {
			return ErrBody
		}
		p.flags(b[0])
		p.Name = string(b[1:])
	case WILLMSG, WILLMSGUPD:
		p.Data = b
	case REGISTER:
		if n < 5 {
			return ErrBody
		}
		p.TopicID = be16(b[0:2])
		p.MsgID = be16(b[2:4])
		p.Name = string(b[4:])
	case REGACK, PUBACK:
		if n != 5 {
			return ErrBody
		}
		p.TopicID = be16(b[0:2])
		p.MsgID = be16(b[2:4])
		p.RC = b[4]
	case PUBLISH:
		if n < 5 {
			return ErrBody
		}
		p.flags(b[0])
		p.TopicID = be16(b[1:3])
		p.MsgID = be16(b[3:5])
		p.Data = b[5:]
	case PUBCOMP, PUBREC, PUBREL, UNSUBACK:
		if n != 2 {
			return ErrBody
		}
		p.MsgID = be16(b[0:2])
	case SUBSCRIBE, UNSUBSCRIBE:
		if n < 4 {
			return ErrBody
		}
		p.flags(b[0])
		p.MsgID = be16(b[1:3])
		switch p.TIT {
		case 0:
			p.HasName = true
			p.Name = string(b[3:])
		case 1, 2:
			if n != 5 {
				return ErrBody
			}
			p.TopicID = be16(b[3:5])
		default:
			return ErrBody
		}
	case SUBACK:
		if n != 6 {
			return ErrBody
		}
		p.flags(b[0])
		p.TopicID = be16(b[1:3])
		p.MsgID = be16(b[3:5])
		p.RC = b[5]
	case PINGREQ:
		p.ClientID = b
	case DISCONNECT:
		switch n {
		case 0:
		case 2:
			p.HasDur = true
			p.Duration = be16(b)
		default:
			return ErrBody
		}
	default:
		return ErrType
	}
	return nil
}

// EncodeBody returns the variable part of p by the spec layout.
func (p *Pkt) EncodeBody() []byte {
	var b []byte
	u16 := func(v uint16) { b = append(b, byte(v>>8), byte(v)) }
	fl := func() byte {
		if p.HasFlags {
			return p.Flags
		}
		var f byte
		if p.DUP {
			f |= FlagDUP
		}
		f |= (p.QoS << 5) & FlagQoS
		if p.Retain {
			f |= FlagRetain
		}
		if p.Will {
			f |= FlagWill
		}
		if p.Clean {
			f |= FlagClean
		}
		f |= p.TIT & FlagTIT
		return f & FlagMask(p.Type)
	}
	switch p.Type {
	case ADVERTISE:
		b = append(b, p.GwID)
		u16(p.Duration)
	case SEARCHGW:
		b = append(b, p.Radius)
	case GWINFO:
		b = append(b, p.GwID)
		b = append(b, p.Data...)
	case AUTH:
		b = append(b, p.Reason, byte(len(p.Name)))
		b = append(b, p.Name...)
		b = append(b, p.Data...)
	case CONNECT:
		b = append(b, fl(), p.ProtoID)
		u16(p.Duration)
		b = append(b, p.ClientID...)
	case CONNACK, WILLTOPICRESP, WILLMSGRESP:
		b = append(b, p.RC)
	case WILLTOPICREQ, WILLMSGREQ, PINGRESP:
	case WILLTOPIC, WILLTOPICUPD:
		if p.Name != "" || p.HasFlags {
			b = append(b, fl())
			b = append(b, p.Name...)
		}
	case WILLMSG, WILLMSGUPD:
		b = append(b, p.Data...)
	case REGISTER:
		u16(p.TopicID)
		u16(p.MsgID)
		b = append(b, p.Name...)
	case REGACK, PUBACK:
		u16(p.TopicID)
		u16(p.MsgID)
		b = append(b, p.RC)
	case PUBLISH:
		b = append(b, fl())
		u16(p.TopicID)
		u16(p.MsgID)
		b = append(b, p.Data...)
	case PUBCOMP, PUBREC, PUBREL, UNSUBACK:
		u16(p.MsgID)
	case SUBSCRIBE, UNSUBSCRIBE:
		b = append(b, fl())
		u16(p.MsgID)
		if p.HasName || (p.TIT == 0) {
			b = append(b, p.Name...)
		} else {
			u16(p.TopicID)
		}
	case SUBACK:
		b = append(b, fl())
		u16(p.TopicID)
		u16(p.MsgID)
		b = append(b, p.RC)
	case PINGREQ:
		b = append(b, p.ClientID...)
	case DISCONNECT:
		if p.HasDur {
			u16(p.Duration)
		}
	}
	return b
}

// Frame prepends the spec header to a body: one-byte length when the total is
// at most 255 bytes, else 0x01 + 2-byte length.
func Frame(t byte, body []byte) []byte {
	if len(body)+2 <= 255 {
		return append([]byte{byte(len(body) + 2), t}, body...)
	}
	n := len(body) + 4
	return append([]byte{1, byte(n >> 8), byte(n), t}, body...)
}

// FrameLong always uses the 3-byte length form (not spec-conforming for small packets).
func FrameLong(t byte, body []byte) []byte {
	n := len(body) + 4
	return append([]byte{1, byte(n >> 8), byte(n), t}, body...)
}

// Encode returns the datagram for p.
func (p *Pkt) Encode() []byte { return Frame(p.Type, p.EncodeBody()) }

// ---- convenience constructors (used by scripted peers) ----

func Connect(id string, dur uint16, will, clean bool) *Pkt {
	return &Pkt{Type: CONNECT, ProtoID: 1, Duration: dur, ClientID: []byte(id), Will: will, Clean: clean}
}
func Connack(rc byte) *Pkt { return &Pkt{Type: CONNACK, RC: rc} }
func AuthPlain(user string, pw []byte) *Pkt {
	d := append([]byte{0}, user...)
	d = append(d, 0)
	d = append(d, pw...)
	return &Pkt{Type: AUTH, Name: "PLAIN", Data: d}
}
func WillTopic(name string, qos uint8, retain bool) *Pkt {
	return &Pkt{Type: WILLTOPIC, Name: name, QoS: qos, Retain: retain}
}
func WillMsg(d []byte) *Pkt { return &Pkt{Type: WILLMSG, Data: d} }
func Register(tid, mid uint16, name string) *Pkt {
	return &Pkt{Type: REGISTER, TopicID: tid, MsgID: mid, Name: name}
}
func Regack(tid, mid uint16, rc byte) *Pkt {
	return &Pkt{Type: REGACK, TopicID: tid, MsgID: mid, RC: rc}
}
func Publish(tit uint8, tid, mid uint16, qos uint8, dup, retain bool, data []byte) *Pkt {
	return &Pkt{Type: PUBLISH, TIT: tit, TopicID: tid, MsgID: mid, QoS: qos, DUP: dup, Retain: retain, Data: data}
}
func Puback(tid, mid uint16, rc byte) *Pkt {
	return &Pkt{Type: PUBACK, TopicID: tid, MsgID: mid, RC: rc}
}
func MsgOnly(t byte, mid uint16) *Pkt { return &Pkt{Type: t, MsgID: mid} }
func SubscribeName(mid uint16, qos uint8, name string) *Pkt {
	return &Pkt{Type: SUBSCRIBE, MsgID: mid, QoS: qos, TIT: 0, HasName: true, Name: name}
}
func SubscribeID(mid uint16, qos uint8, tit uint8, tid uint16) *Pkt {
	return &Pkt{Type: SUBSCRIBE, MsgID: mid, QoS: qos, TIT: tit, TopicID: tid}
}
func UnsubscribeName(mid uint16, name string) *Pkt {
	return &Pkt{Type: UNSUBSCRIBE, MsgID: mid, TIT: 0, HasName: true, Name: name}
}
func UnsubscribeID(mid uint16, tit uint8, tid uint16) *Pkt {
	return &Pkt{Type: UNSUBSCRIBE, MsgID: mid, TIT: tit, TopicID: tid}
}
func Suback(tid, mid uint16, rc byte, qos uint8) *Pkt {
	return &Pkt{Type: SUBACK, TopicID: tid, MsgID: mid, RC: rc, QoS: qos}
}
func Pingreq(id string) *Pkt { return &Pkt{Type: PINGREQ, ClientID: []byte(id)} }
func Pingresp() *Pkt         { return &Pkt{Type: PINGRESP} }
func Disconnect() *Pkt       { return &Pkt{Type: DISCONNECT} }
func Sleep(d uint16) *Pkt    { return &Pkt{Type: DISCONNECT, HasDur: true, Duration: d} }

// ShortName decodes a short topic ID into its 2-byte name (spec 3: the two
// bytes of the TopicId field are the two characters).
func ShortName(id uint16) string { return string([]byte{byte(id >> 8), byte(id)}) }

// ShortID encodes a 2-byte name.
func ShortID(s string) uint16 { return uint16(s[0])<<8 | uint16(s[1]) }

// Allowed directions (spec 5.4 + gateway/client roles for a transparent gateway).
var gwToClient = map[byte]bool{CONNACK: true, WILLTOPICREQ: true, WILLMSGREQ: true, REGISTER: true,
	REGACK: true, PUBLISH: true, PUBACK: true, PUBREC: true, PUBREL: true, PUBCOMP: true, SUBACK: true,
	UNSUBACK: true, PINGRESP: true, DISCONNECT: true, WILLTOPICRESP: true, WILLMSGRESP: true,
	ADVERTISE: true, GWINFO: true, PINGREQ: true}
var clientToGw = map[byte]bool{CONNECT: true, AUTH: true, WILLTOPIC: true, WILLMSG: true, REGISTER: true,
	REGACK: true, PUBLISH: true, PUBACK: true, PUBREC: true, PUBREL: true, PUBCOMP: true, SUBSCRIBE: true,
	UNSUBSCRIBE: true, PINGREQ: true, PINGRESP: true, DISCONNECT: true, WILLTOPICUPD: true, WILLMSGUPD: true,
	SEARCHGW: true}

// ValidFromGateway reports whether the spec lets a gateway send type t to a client.
func ValidFromGateway(t byte) bool { return gwToClient[t] }

// ValidFromClient reports whether the spec lets a client send type t to a gateway.
func ValidFromClient(t byte) bool { return clientToGw[t] }
