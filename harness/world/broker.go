package world

import (
	"fmt"
	"strings"
	"sync"
	"time"

	"verifharness/mqttref"
)

// BrokerCfg configures the simulated conforming MQTT 3.1.1 broker.
type BrokerCfg struct {
	ConnackRC   byte                                // return code for every CONNECT
	Silent      bool                                // never answer CONNECT
	SubGrant    func(filter string, req byte) byte // SUBACK code; nil = grant what was requested
	FirstID     uint16                              // first packet identifier the broker uses (default 1)
	Route       bool                                // route client publishes back to the session's matching subscriptions
	EnforceKA   bool                                // close after 1.5x keep-alive of silence; close after 10 s without CONNECT
	NoPuback    bool                                // do not acknowledge client QoS1/2 publishes
	NoSuback    bool
	NoPingresp  bool
	GrantedQoSCap byte                              // when Route: deliver with min(pub qos, granted)
	PingrespDelay time.Duration                     // PINGRESP is sent that much later (virtual time)
	AckDelay      time.Duration                     // PUBACK/PUBREC/PUBCOMP/PUBREL/SUBACK/UNSUBACK are sent that much later
	CloseDelay    time.Duration                     // the connection is closed that long after a DISCONNECT / refused CONNECT (0: at once)
	EarlyPublish  bool                              // a granted SUBSCRIBE to a concrete topic name is followed by a retained-style PUBLISH on it BEFORE the SUBACK (MQTT 3.1.1 allows that)
}

type brokerSess struct {
	connected bool
	ka        uint16
	subs      map[string]byte // filter -> granted qos
	nextID    uint16
	gen       int // keep-alive timer generation
	recv2     map[uint16]bool
	got       []*mqttref.Pkt
	closed    bool
	early     int
}

// Broker is the simulated broker shared by the sessions of a world.
type Broker struct {
	Cfg BrokerCfg
	mu  sync.Mutex
	st  map[*Session]*brokerSess
}

func NewBroker(cfg BrokerCfg) *Broker {
	if cfg.FirstID == 0 {
		cfg.FirstID = 1
	}
	return &Broker{Cfg: cfg, st: map[*Session]*brokerSess{}}
}

func (b *Broker) sess(s *Session) *brokerSess {
	bs := b.st[s]
	if bs == nil {
		bs = &brokerSess{subs: map[string]byte{}, nextID: b.Cfg.FirstID, recv2: map[uint16]bool{}}
		b.st[s] = bs
	}
	return bs
}

// Attach must be called right after NewSession when EnforceKA is on: it arms
// the "no CONNECT within 10 s" timer.
func (b *Broker) Attach(s *Session) {
	b.mu.Lock()
	bs := b.sess(s)
	b.armLocked(s, bs, 10*time.Second)
	b.mu.Unlock()
}

func (b *Broker) armLocked(s *Session, bs *brokerSess, d time.Duration) {
	if !b.Cfg.EnforceKA || d <= 0 {
		bs.gen++
		return
	}
	bs.gen++
	g := bs.gen
	time.AfterFunc(d, func() {
		b.mu.Lock()
		fire := bs.gen == g && !bs.closed
		if fire {
			bs.closed = true
		}
		b.mu.Unlock()
		if fire {
			s.W.Tr.Add(s.ID, Note, nil, "broker: keep-alive expired, closing")
			s.BrokerClose()
		}
	})
}

// Got returns the packets received from the session's gateway so far.
func (b *Broker) Got(s *Session) []*mqttref.Pkt {
	b.mu.Lock()
	defer b.mu.Unlock()
	return append([]*mqttref.Pkt(nil), b.sess(s).got...)
}

// Handler returns the mqHandler to pass to NewSession.
func (b *Broker) Handler() func(s *Session, p *mqttref.Pkt) {
	return func(s *Session, p *mqttref.Pkt) {
		b.mu.Lock()
		bs := b.sess(s)
		bs.got = append(bs.got, p)
		var out [][]byte
		closeAfter := false
		if bs.connected {
			b.armLocked(s, bs, time.Duration(bs.ka)*1500*time.Millisecond)
		}
		switch p.Type {
		case mqttref.CONNECT:
			if !b.Cfg.Silent {
				out = append(out, mqttref.EncConnack(false, b.Cfg.ConnackRC))
				if b.Cfg.ConnackRC == 0 {
					bs.connected = true
					bs.ka = p.KeepAlive
					b.armLocked(s, bs, time.Duration(bs.ka)*1500*time.Millisecond)
				} else {
					closeAfter = true
				}
			}
		case mqttref.PUBLISH:
			if !b.Cfg.NoPuback {
				switch p.QoS {
				case 1:
					out = append(out, mqttref.EncAck(mqttref.PUBACK, p.MsgID))
				case 2:
					out = append(out, mqttref.EncAck(mqttref.PUBREC, p.MsgID))
				}
			}
			deliver := p.QoS != 2
			if p.QoS == 2 {
				if !bs.recv2[p.MsgID] {
					bs.recv2[p.MsgID] = true
					deliver = true
				}
			}
			if b.Cfg.Route && deliver {
				best, found := byte(0), false
				for f, q := range bs.subs {
					if mqttref.Match(f, p.Topic) {
						if !found || q > best {
							best = q
						}
						found = true
					}
				}
				if found {
					q := p.QoS
					if best < q {
						q = best
					}
					var mid uint16
					if q > 0 {
						mid = b.nextLocked(bs)
					}
					out = append(out, mqttref.EncPublish(p.Topic, mid, q, false, false, p.Payload))
				}
			}
		case mqttref.PUBREL:
			delete(bs.recv2, p.MsgID)
			out = append(out, mqttref.EncAck(mqttref.PUBCOMP, p.MsgID))
		case mqttref.PUBREC:
			out = append(out, mqttref.EncAck(mqttref.PUBREL, p.MsgID))
		case mqttref.SUBSCRIBE:
			var codes []byte
			for i, f := range p.Filters {
				req := byte(0)
				if i < len(p.QoSs) {
					req = p.QoSs[i]
				}
				code := req
				if b.Cfg.SubGrant != nil {
					code = b.Cfg.SubGrant(f, req)
				}
				if code <= 2 {
					bs.subs[f] = code
				}
				codes = append(codes, code)
			}
			if b.Cfg.EarlyPublish && len(p.Filters) == 1 && len(codes) == 1 && codes[0] <= 2 && !strings.ContainsAny(p.Filters[0], "+#") {
				bs.early++
				q := codes[0]
				if q > 1 {
					q = 1
				}
				var mid uint16
				if q > 0 {
					mid = b.nextLocked(bs)
				}
				out = append(out, mqttref.EncPublish(p.Filters[0], mid, q, false, true, []byte(fmt.Sprintf("early-%d", bs.early))))
			}
			if !b.Cfg.NoSuback {
				out = append(out, mqttref.EncSuback(p.MsgID, codes...))
			}
		case mqttref.UNSUBSCRIBE:
			for _, f := range p.Filters {
				delete(bs.subs, f)
			}
			out = append(out, mqttref.EncAck(mqttref.UNSUBACK, p.MsgID))
		case mqttref.PINGREQ:
			if !b.Cfg.NoPingresp {
				out = append(out, mqttref.EncPingresp())
			}
		case mqttref.DISCONNECT:
			closeAfter = true
			bs.closed = true
			bs.gen++
		}
		b.mu.Unlock()
		delay := time.Duration(0)
		switch p.Type {
		case mqttref.PINGREQ:
			delay = b.Cfg.PingrespDelay
		case mqttref.PUBLISH, mqttref.PUBREL, mqttref.PUBREC, mqttref.SUBSCRIBE, mqttref.UNSUBSCRIBE:
			delay = b.Cfg.AckDelay
		}
		if delay > 0 && !closeAfter {
			outs := out
			time.AfterFunc(delay, func() {
				for _, o := range outs {
					s.MQSend(o)
				}
			})
			return
		}
		for _, o := range out {
			s.MQSend(o)
		}
		if closeAfter {
			if b.Cfg.CloseDelay > 0 {
				time.AfterFunc(b.Cfg.CloseDelay, s.BrokerClose)
			} else {
				s.BrokerClose()
			}
		}
	}
}

func (b *Broker) nextLocked(bs *brokerSess) uint16 {
	id := bs.nextID
	bs.nextID++
	if bs.nextID == 0 {
		bs.nextID = 1
	}
	return id
}

// Publish sends a PUBLISH from the broker to the session's gateway with the
// broker's next packet identifier (QoS>0) and returns that identifier.
func (b *Broker) Publish(s *Session, topic string, qos byte, retain bool, payload []byte) uint16 {
	b.mu.Lock()
	bs := b.sess(s)
	var mid uint16
	if qos > 0 {
		mid = b.nextLocked(bs)
	}
	b.mu.Unlock()
	s.MQSend(mqttref.EncPublish(topic, mid, qos, false, retain, payload))
	return mid
}

// Subs returns the session's current subscriptions as the broker sees them.
func (b *Broker) Subs(s *Session) map[string]byte {
	b.mu.Lock()
	defer b.mu.Unlock()
	out := map[string]byte{}
	for k, v := range b.sess(s).subs {
		out[k] = v
	}
	return out
}
