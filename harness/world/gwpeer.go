package world

import (
	"sync"
	"time"

	"verifharness/memnet"
	"verifharness/snref"
)

// GwPeer is a scripted MQTT-SN gateway talking to a real client library
// instance: the client gets Link.A, the peer reads and writes Link.B. The
// trace uses the same kinds as for real gateway sessions (sn> = client to
// gateway, sn< = gateway to client).
type GwPeer struct {
	Tr   *Trace
	ID   int
	Link *memnet.Link

	mu     sync.Mutex
	plan   FaultPlan
	counts map[string]int
	wg     sync.WaitGroup
}

// NewGwPeer creates the link and starts the peer's reader. handler is called
// in the reader goroutine for every datagram the client sends that the fault plan lets through.
func NewGwPeer(tr *Trace, id int, handler func(g *GwPeer, p *snref.Pkt, raw []byte)) *GwPeer {
	g := &GwPeer{Tr: tr, ID: id, counts: map[string]int{}}
	g.Link = memnet.NewPacketLink("client", "gw")
	g.Link.SetTap(func(from *memnet.End, b []byte) memnet.Action {
		if b == nil {
			if from == g.Link.A {
				tr.Add(id, CloseSC, nil, "")
			} else {
				tr.Add(id, CloseSG, nil, "")
			}
			return memnet.Pass
		}
		kind := SNOut
		if from == g.Link.A {
			kind = SNIn
		}
		seq := tr.Add(id, kind, b, "")
		g.mu.Lock()
		plan := g.plan
		g.mu.Unlock()
		if plan == nil {
			return memnet.Pass
		}
		p, _ := snref.ParseLoose(b)
		key := kind + "?"
		if p != nil {
			key = kind + snref.TypeName(p.Type)
		}
		g.mu.Lock()
		n := g.counts[key]
		g.counts[key] = n + 1
		g.mu.Unlock()
		act := plan(kind, p, n)
		switch act {
		case memnet.Drop:
			tr.setFault(seq, "drop")
		case memnet.Dup:
			tr.setFault(seq, "dup")
		case memnet.Fail:
			tr.setFault(seq, "senderr")
		}
		return act
	})
	g.wg.Add(1)
	go func() {
		defer g.wg.Done()
		buf := make([]byte, 70000)
		for {
			n, err := g.Link.B.Read(buf)
			if err != nil {
				return
			}
			if handler != nil {
				raw := append([]byte(nil), buf[:n]...)
				p, _ := snref.ParseLoose(raw)
				handler(g, p, raw)
			}
		}
	}()
	return g
}

// SetPlan installs a fault plan (applies to both directions).
func (g *GwPeer) SetPlan(p FaultPlan) { g.mu.Lock(); g.plan = p; g.mu.Unlock() }

// Send sends a packet from the gateway to the client.
func (g *GwPeer) Send(p *snref.Pkt) { g.Link.B.Write(p.Encode()) }

// SendRaw sends raw bytes from the gateway to the client.
func (g *GwPeer) SendRaw(b []byte) { g.Link.B.Write(b) }

// SendAfter sends a packet after a (virtual) delay.
func (g *GwPeer) SendAfter(d time.Duration, p *snref.Pkt) {
	time.AfterFunc(d, func() { g.Send(p) })
}

// Close closes the gateway's end and waits for the reader.
func (g *GwPeer) Close() {
	g.Link.B.Close()
	g.wg.Wait()
}
