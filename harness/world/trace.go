// Package world builds in-memory worlds around the real bisquitt gateway
// session handler and/or the real client library: links, scripted peers,
// a simulated broker and one totally ordered trace of everything that crossed
// a link.
package world

import (
	"encoding/hex"
	"fmt"
	"sync"
	"time"

	"verifharness/mqttref"
	"verifharness/snref"
)

// Event kinds.
const (
	SNIn    = "sn>" // MQTT-SN datagram client -> gateway
	SNOut   = "sn<" // MQTT-SN datagram gateway -> client
	MQOut   = "mq>" // bytes gateway -> broker
	MQIn    = "mq<" // bytes broker -> gateway
	CloseSC = "close.sn.client"
	CloseSG = "close.sn.gw"
	CloseMG = "close.mq.gw"
	CloseMB = "close.mq.broker"
	Dial    = "dial"
	End     = "end" // gateway session handler returned
	Note    = "note"
	Call    = "call" // client API call started
	Ret     = "ret"  // client API call returned
	CB      = "cb"   // subscription callback ran
)

// Ev is one trace event.
type Ev struct {
	Seq   int
	T     time.Duration // virtual time since the world was created
	Sess  int
	Kind  string
	B     []byte
	Note  string
	Fault string // "", "drop", "dup"
}

func (e Ev) String() string {
	s := fmt.Sprintf("#%d t=%v s%d %s", e.Seq, e.T, e.Sess, e.Kind)
	switch e.Kind {
	case SNIn, SNOut:
		if p, err := snref.ParseLoose(e.B); err == nil {
			s += " " + p.String()
		} else {
			s += " raw=" + hex.EncodeToString(cut(e.B))
		}
	case MQIn, MQOut:
		if ps, _, _ := mqttref.ParseAll(e.B); len(ps) > 0 {
			for _, p := range ps {
				s += " " + p.String()
			}
		} else {
			s += " raw=" + hex.EncodeToString(cut(e.B))
		}
	}
	if e.Note != "" {
		s += " " + e.Note
	}
	if e.Fault != "" {
		s += " [" + e.Fault + "]"
	}
	return s
}

func cut(b []byte) []byte {
	if len(b) > 40 {
		return b[:40]
	}
	return b
}

// Trace is the totally ordered event log of one world.
type Trace struct {
	mu    sync.Mutex
	start time.Time
	evs   []Ev
}

func NewTrace() *Trace { return &Trace{start: time.Now()} }

func (t *Trace) Add(sess int, kind string, b []byte, note string) int {
	t.mu.Lock()
	defer t.mu.Unlock()
	e := Ev{Seq: len(t.evs), T: time.Since(t.start), Sess: sess, Kind: kind, B: b, Note: note}
	t.evs = append(t.evs, e)
	return e.Seq
}

func (t *Trace) setFault(seq int, f string) {
	t.mu.Lock()
	t.evs[seq].Fault = f
	t.mu.Unlock()
}

// Now returns the virtual time since the world started.
func (t *Trace) Now() time.Duration { return time.Since(t.start) }

// Events returns a snapshot.
func (t *Trace) Events() []Ev {
	t.mu.Lock()
	defer t.mu.Unlock()
	return append([]Ev(nil), t.evs...)
}

// Len returns the number of events so far.
func (t *Trace) Len() int { t.mu.Lock(); defer t.mu.Unlock(); return len(t.evs) }

// Strings renders events (at most max, 0 = all) for witnesses and samples.
func Strings(evs []Ev, max int) []string {
	var out []string
	for i, e := range evs {
		if max > 0 && i >= max {
			out = append(out, fmt.Sprintf("... %d more", len(evs)-max))
			break
		}
		out = append(out, e.String())
	}
	return out
}

// SNPackets returns the parsed MQTT-SN packets of one session in one
// direction, with their events. Undecodable datagrams have P == nil.
type SNEv struct {
	Ev
	P   *snref.Pkt
	Err error
}

func SNPackets(evs []Ev, sess int, kind string) []SNEv {
	var out []SNEv
	for _, e := range evs {
		if e.Sess == sess && e.Kind == kind {
			p, err := snref.Parse(e.B)
			if err != nil {
				out = append(out, SNEv{Ev: e, Err: err, P: p})
			} else {
				out = append(out, SNEv{Ev: e, P: p})
			}
		}
	}
	return out
}

// MQEv is one MQTT packet on a broker link with the event that carried its first byte.
type MQEv struct {
	Ev
	P *mqttref.Pkt
}

// MQPackets reassembles the byte stream of one session in one direction into packets.
// rest is the undecodable tail (nil when the stream parsed completely).
func MQPackets(evs []Ev, sess int, kind string) (out []MQEv, rest []byte, err error) {
	var buf []byte
	var owners []Ev // owner event per byte run
	var runs []int
	for _, e := range evs {
		if e.Sess == sess && e.Kind == kind {
			buf = append(buf, e.B...)
			owners = append(owners, e)
			runs = append(runs, len(e.B))
		}
	}
	pos, oi, opos := 0, 0, 0 // opos: start offset of owners[oi]
	for pos < len(buf) {
		p, n, e := mqttref.Next(buf[pos:])
		if e != nil {
			return out, buf[pos:], e
		}
		for oi < len(owners)-1 && pos >= opos+runs[oi] {
			opos += runs[oi]
			oi++
		}
		out = append(out, MQEv{Ev: owners[oi], P: p})
		pos += n
	}
	return out, nil, nil
}
