package world

import (
	"context"
	"net"
	"sync"
	"time"

	"github.com/energomonitor/bisquitt/gateway"
	"github.com/energomonitor/bisquitt/topics"
	"github.com/energomonitor/bisquitt/util"

	"verifharness/memnet"
	"verifharness/mqttref"
	"verifharness/snref"
)

// GWConfig is the subset of gateway configuration the workloads vary.
type GWConfig struct {
	Auth       bool
	User       *string
	Password   []byte
	Predefined topics.PredefinedTopics
	RetryDelay time.Duration
	RetryCount uint
}

// World is one bubble's worth of links and peers around one Gateway value.
type World struct {
	Tr     *Trace
	GW     *gateway.Gateway
	Cfg    GWConfig
	Ctx    context.Context
	Cancel context.CancelFunc
	Logger util.Logger

	mu    sync.Mutex
	sess  []*Session
	wg    sync.WaitGroup
}

// New creates a world. Must be called inside the bubble that will run it.
func New(cfg GWConfig) *World {
	if cfg.RetryDelay == 0 {
		cfg.RetryDelay = 10 * time.Second
	}
	if cfg.Predefined == nil {
		cfg.Predefined = topics.PredefinedTopics{}
	}
	ctx, cancel := context.WithCancel(context.Background())
	w := &World{Tr: NewTrace(), Cfg: cfg, Ctx: ctx, Cancel: cancel, Logger: util.NoOpLogger{}}
	w.GW = gateway.NewGateway(w.Logger, &gateway.GatewayConfig{
		MqttBrokerAddress:     &net.TCPAddr{IP: net.IPv4(127, 0, 0, 1), Port: 1},
		MqttConnectionTimeout: time.Second,
		MqttUser:              cfg.User,
		MqttPassword:          cfg.Password,
		PredefinedTopics:      cfg.Predefined,
		AuthEnabled:           cfg.Auth,
		RetryDelay:            cfg.RetryDelay,
		RetryCount:            cfg.RetryCount,
	})
	return w
}

// FaultPlan decides the fate of one MQTT-SN datagram. dir is SNIn or SNOut,
// p the parsed datagram (nil if undecodable), n the 0-based count of earlier
// datagrams of the same direction and type in this session.
type FaultPlan func(dir string, p *snref.Pkt, n int) memnet.Action

// Session is one MQTT-SN peer address served by the real gateway handler.
type Session struct {
	W    *World
	ID   int
	SN   *memnet.Link // A = client end, B = gateway end
	MQ   *memnet.Link // A = gateway end, B = broker end
	Done chan struct{}
	EndT time.Duration
	Ctx  context.Context
	Stop context.CancelFunc // cancels only this session's context (same effect as gateway shutdown for it)

	mu      sync.Mutex
	plan    FaultPlan
	counts  map[string]int
	dialed  bool
	ended   bool
	snRead  func(*snref.Pkt, []byte)
	mqRead  func(*mqttref.Pkt)
	Delay   func(dir string, p *snref.Pkt, n int) time.Duration
	stalled bool
	unstall chan struct{}
	resume  chan struct{}
	mqFail  int // the next mqFail writes of the gateway to the broker return an error

	// Segment > 0: everything the broker sends arrives in two TCP segments, the second one Segment later.
	Segment    time.Duration
	// LongForm: the scripted client encodes its datagrams with the 3-byte Length field:
	// 1 = all of them, 2 = all but CONNECT, 3 = DISCONNECT only.
	LongForm int
	segQ       [][]byte
	segRunning bool
}

// FailBrokerWrites makes the next n writes of the gateway on the broker connection fail (nothing is delivered).
func (s *Session) FailBrokerWrites(n int) { s.mu.Lock(); s.mqFail = n; s.mu.Unlock() }

// NewSession creates the links and starts the real session handler.
// snHandler is called (in the client peer's goroutine) for every datagram the
// gateway sends; mqHandler (in the broker peer's goroutine) for every MQTT
// packet the gateway sends. Either may be nil.
func (w *World) NewSession(snHandler func(s *Session, p *snref.Pkt, raw []byte), mqHandler func(s *Session, p *mqttref.Pkt)) *Session {
	return w.newSession(snHandler, mqHandler, false)
}

// NewSessionForClient is NewSession without the scripted client's reader:
// the client end of the MQTT-SN link (s.SN.A) is meant to be handed to a real
// client library instance.
func (w *World) NewSessionForClient(mqHandler func(s *Session, p *mqttref.Pkt)) *Session {
	return w.newSession(nil, mqHandler, true)
}

func (w *World) newSession(snHandler func(s *Session, p *snref.Pkt, raw []byte), mqHandler func(s *Session, p *mqttref.Pkt), externalClient bool) *Session {
	w.mu.Lock()
	id := len(w.sess)
	s := &Session{W: w, ID: id, Done: make(chan struct{}), counts: map[string]int{}, unstall: make(chan struct{}), resume: make(chan struct{}, 1)}
	w.sess = append(w.sess, s)
	w.mu.Unlock()
	s.Ctx, s.Stop = context.WithCancel(w.Ctx)
	s.SN = memnet.NewPacketLink("client", "gw")
	s.MQ = memnet.NewStreamLink("gw", "broker")
	s.SN.SetTap(func(from *memnet.End, b []byte) memnet.Action {
		if b == nil {
			if from == s.SN.A {
				w.Tr.Add(id, CloseSC, nil, "")
			} else {
				w.Tr.Add(id, CloseSG, nil, "")
			}
			return memnet.Pass
		}
		kind := SNOut
		if from == s.SN.A {
			kind = SNIn
		}
		seq := w.Tr.Add(id, kind, b, "")
		s.mu.Lock()
		plan := s.plan
		s.mu.Unlock()
		if plan == nil {
			return memnet.Pass
		}
		p, _ := snref.ParseLoose(b)
		key := kind + "?"
		if p != nil {
			key = kind + snref.TypeName(p.Type)
		}
		s.mu.Lock()
		n := s.counts[key]
		s.counts[key] = n + 1
		s.mu.Unlock()
		act := plan(kind, p, n)
		switch act {
		case memnet.Drop:
			w.Tr.setFault(seq, "drop")
		case memnet.Dup:
			w.Tr.setFault(seq, "dup")
		case memnet.Fail:
			w.Tr.setFault(seq, "senderr")
		}
		return act
	})
	s.MQ.SetTap(func(from *memnet.End, b []byte) memnet.Action {
		if b == nil {
			if from == s.MQ.A {
				w.Tr.Add(id, CloseMG, nil, "")
			} else {
				w.Tr.Add(id, CloseMB, nil, "")
			}
			return memnet.Pass
		}
		kind := MQIn
		if from == s.MQ.A {
			kind = MQOut
		}
		seq := w.Tr.Add(id, kind, b, "")
		if kind == MQOut {
			s.mu.Lock()
			fail := s.mqFail > 0
			if fail {
				s.mqFail--
			}
			s.mu.Unlock()
			if fail {
				w.Tr.setFault(seq, "senderr")
				return memnet.Fail
			}
		}
		return memnet.Pass
	})

	// client-side reader
	if !externalClient {
		w.wg.Add(1)
		go func() {
			defer w.wg.Done()
			buf := make([]byte, 70000)
			for {
				n, err := s.SN.A.Read(buf)
				if err != nil {
					return
				}
				if snHandler != nil {
					raw := append([]byte(nil), buf[:n]...)
					p, _ := snref.ParseLoose(raw)
					snHandler(s, p, raw)
				}
			}
		}()
	}
	// broker-side reader
	w.wg.Add(1)
	go func() {
		defer w.wg.Done()
		var acc []byte
		buf := make([]byte, 70000)
		for {
			s.mu.Lock()
			stalled := s.stalled
			s.mu.Unlock()
			if stalled {
				// a broker that has stopped reading (until ResumeBroker, if ever)
				select {
				case <-s.unstall:
					return
				case <-s.resume:
					s.mu.Lock()
					s.stalled = false
					s.mu.Unlock()
					continue
				}
			}
			n, err := s.MQ.B.Read(buf)
			if err != nil {
				s.mu.Lock()
				stalled = s.stalled
				s.mu.Unlock()
				if stalled {
					// StallBroker interrupted the read: wait for ResumeBroker (or the end of the world)
					s.MQ.B.SetReadDeadline(time.Time{})
					continue
				}
				return
			}
			acc = append(acc, buf[:n]...)
			for {
				p, k, e := mqttref.Next(acc)
				if e != nil {
					break
				}
				if mqHandler != nil {
					mqHandler(s, p)
				}
				acc = acc[k:]
			}
		}
	}()
	// the real handler
	w.wg.Add(1)
	go func() {
		defer w.wg.Done()
		w.GW.VerifServeConn(s.Ctx, w.Logger, s.SN.B, func() net.Conn {
			s.mu.Lock()
			s.dialed = true
			s.mu.Unlock()
			w.Tr.Add(id, Dial, nil, "")
			return s.MQ.A
		})
		s.mu.Lock()
		s.ended = true
		s.EndT = w.Tr.Now()
		s.mu.Unlock()
		w.Tr.Add(id, End, nil, "")
		close(s.Done)
	}()
	return s
}

// SetPlan installs a fault plan for the MQTT-SN link of this session.
func (s *Session) SetPlan(p FaultPlan) { s.mu.Lock(); s.plan = p; s.mu.Unlock() }

// Ended reports whether the handler has returned.
func (s *Session) Ended() bool { s.mu.Lock(); defer s.mu.Unlock(); return s.ended }

// SNSend sends a datagram from the client to the gateway.
func (s *Session) SNSend(b []byte) { s.SN.A.Write(b) }

// SNSendP sends an encoded reference packet.
func (s *Session) SNSendP(p *snref.Pkt) {
	if s.LongForm == 1 || (s.LongForm == 2 && p.Type != snref.CONNECT) || (s.LongForm == 3 && p.Type == snref.DISCONNECT) {
		// the 3-byte Length form, which MQTT-SN 1.2 (5.2.1) also allows for datagrams shorter than 256 bytes
		s.SN.A.Write(snref.FrameLong(p.Type, p.EncodeBody()))
		return
	}
	s.SN.A.Write(p.Encode())
}

// MQSend sends bytes from the broker to the gateway.
func (s *Session) MQSend(b []byte) {
	if s.Segment <= 0 {
		s.MQ.B.Write(b)
		return
	}
	// TCP segmentation: every packet arrives in two pieces, the second one Segment later (longer than the
	// gateway's 100 ms connection poll interval when Segment says so). A sender goroutine keeps the byte
	// order; no lock is held while it sleeps (a goroutine waiting for a sync.Mutex would freeze a synctest clock).
	s.mu.Lock()
	s.segQ = append(s.segQ, append([]byte(nil), b...))
	start := !s.segRunning
	s.segRunning = true
	s.mu.Unlock()
	if !start {
		return
	}
	s.W.wg.Add(1)
	go func() {
		defer s.W.wg.Done()
		for {
			s.mu.Lock()
			if len(s.segQ) == 0 {
				s.segRunning = false
				s.mu.Unlock()
				return
			}
			p := s.segQ[0]
			s.segQ = s.segQ[1:]
			s.mu.Unlock()
			if len(p) < 2 {
				s.MQ.B.Write(p)
				continue
			}
			k := 1 + len(p)/3
			s.MQ.B.Write(p[:k])
			time.Sleep(s.Segment)
			s.MQ.B.Write(p[k:])
		}
	}()
}

// StallBroker makes the broker stop reading from now on; the link then holds at most capacity bytes, like
// a TCP connection with full buffers: the gateway's writes block.
func (s *Session) StallBroker(capacity int) {
	s.MQ.SetCapacity(capacity)
	s.mu.Lock()
	s.stalled = true
	s.mu.Unlock()
	// wake the reader so that it notices
	s.MQ.B.SetReadDeadline(time.Now())
}

// ResumeBroker lets a stalled broker read again (a slow broker rather than a dead one).
func (s *Session) ResumeBroker() {
	select {
	case s.resume <- struct{}{}:
	default:
	}
}

// BrokerReset makes the gateway's reads on the MQTT connection fail with "connection reset by peer".
func (s *Session) BrokerReset() { s.MQ.A.ResetByPeer() }

// BrokerClose closes the broker's end of the MQTT connection.
func (s *Session) BrokerClose() { s.MQ.B.Close() }

// Finish ends the world: cancels everything, closes peers' ends, waits for
// harness goroutines. Call after the verdict-relevant part of the script.
func (w *World) Finish() {
	w.Cancel()
	// Give sessions their poll interval to notice.
	time.Sleep(300 * time.Millisecond)
	w.mu.Lock()
	ss := append([]*Session(nil), w.sess...)
	w.mu.Unlock()
	for _, s := range ss {
		s.SN.A.Close()
		s.MQ.B.Close()
		s.mu.Lock()
		select {
		case <-s.unstall:
		default:
			close(s.unstall)
		}
		s.mu.Unlock()
	}
}

// WaitHarness waits for the harness's own goroutines (readers, handler wrappers).
func (w *World) WaitHarness() { w.wg.Wait() }

// Sessions returns the sessions created so far.
func (w *World) Sessions() []*Session {
	w.mu.Lock()
	defer w.mu.Unlock()
	return append([]*Session(nil), w.sess...)
}
