#!/bin/sh
# Offline setup: warm the build cache for the harness (plain and -race) with the go1.26.8 toolchain.
set -e
cd "$(dirname "$0")/harness"
export GOFLAGS=-mod=mod GOPROXY=off GOSUMDB=off GOTOOLCHAIN=local
mkdir -p ../.work
go1.26.8 test -c -tags verif -o ../.work/setup.test ./checks
go1.26.8 test -c -tags verif -race -o ../.work/setup.race.test ./checks
rm -f ../.work/setup.test ../.work/setup.race.test
echo setup ok
