#!/usr/bin/env python3
"""usage: import_mutant.py <agent-out-dir> <A|B> <seeded-id> <detected-by> <verify-result-line> [note]"""
import sys, json, os, shutil
out, x, sid, det, verify = sys.argv[1:6]
note = sys.argv[6] if len(sys.argv) > 6 else ""
d = os.path.join('/verif/seeded', sid)
os.makedirs(d, exist_ok=True)
shutil.copy(os.path.join(out, x + '.patch.diff'), os.path.join(d, 'patch.diff'))
m = json.load(open(os.path.join(out, x + '.meta.json')))
demo = os.path.join(out, x + '.demo_test.go')
if os.path.exists(demo):
    shutil.copy(demo, os.path.join(d, 'demo_test.go'))
elif os.path.isdir(os.path.join(out, x + '.demo')):
    shutil.copytree(os.path.join(out, x + '.demo'), os.path.join(d, 'demo'), dirs_exist_ok=True)
meta = {
    "id": sid, "property": m.get("property"), "summary": m.get("summary"), "needs": m.get("needs"),
    "demo_path": m.get("demo_path"), "demo_cmd": m.get("demo_cmd"),
    "confirmed_by_me": verify,
    "ran": "tools/verify_mutant.sh (scratch worktree: patch applies, go build, go test -count=1 ./..., demo with/without patch); tools/run_mutant.sh patch.diff %s (git apply in /repo, ./check <id> quick, git checkout -- .)" % det,
    "detected_by": det.split(','), "note": note,
}
json.dump(meta, open(os.path.join(d, 'meta.json'), 'w'), indent=1)
print("imported", sid)
