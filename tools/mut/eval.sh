#!/bin/bash
# usage: eval.sh Cxx "C11 C23 ..."  -> verifies A and B from /tmp/mut/Cxx.out and runs the given quick checks on each; log in /tmp/mut/Cxx.eval.log
P=$1; CHECKS=${2:-$1}
L=/tmp/mut/$P.eval.log; : > $L
for X in A B; do
  [ -f /tmp/mut/$P.out/$X.patch.diff ] || { echo "no $X" >> $L; continue; }
  /verif/tools/verify_mutant.sh /tmp/mut/$P.out $X HEAD >> $L 2>&1
  mkdir -p /tmp/mut/$P.out/$X.d && cp /tmp/mut/$P.out/$X.patch.diff /tmp/mut/$P.out/$X.d/patch.diff
  /verif/tools/run_mutant.sh /tmp/mut/$P.out/$X.d/patch.diff $CHECKS >> $L 2>&1
done
echo EVAL-DONE >> $L
