#!/bin/bash
# usage: import.sh Cxx A|B <seeded-id> <detected-by-comma-list> [note]
P=$1; X=$2; ID=$3; DET=$4; NOTE=${5:-}
R=$(grep "^RESULT /tmp/mut/$P.out $X " /tmp/mut/$P.eval.log | tail -1)
[ -n "$R" ] || { echo "no verify result for $P $X"; exit 1; }
python3 /verif/tools/import_mutant.py /tmp/mut/$P.out $X $ID "$DET" "$R" "$NOTE"
