import json,sys,os
pid=sys.argv[1]
for l in open('/verif/properties.jsonl'):
    p=json.loads(l)
    if p['id']==pid: break
txt="ID: %s\nTitle: %s\nStatement: %s\nQuantified over: %s\nWhy the existing tests cannot settle it: %s\nCode anchors: %s" % (p['id'],p['title'],p['statement'],p['quantifier']['text'],p['why_tests_cant'],json.dumps(p['anchors']))
t=open('/tmp/mut/PROMPT2.tmpl' if len(sys.argv)>2 else '/tmp/mut/PROMPT.tmpl').read()
sfx=('.'+sys.argv[2]) if len(sys.argv)>2 else ''
wt='/tmp/mut/%s%s.wt'%(pid,sfx); out='/tmp/mut/%s%s.out'%(pid,sfx)
print(t.replace('@WT@',wt).replace('@OUT@',out).replace('@PROPERTY@',txt).replace('@PID@',pid))
