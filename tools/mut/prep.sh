#!/bin/bash
# usage: prep.sh Cxx  -> creates worktree and out dir, prints prompt to /tmp/mut/Cxx.prompt
P=$1
git -C /repo worktree remove --force /tmp/mut/$P.wt >/dev/null 2>&1
rm -rf /tmp/mut/$P.wt /tmp/mut/$P.out
git -C /repo worktree add -q --detach /tmp/mut/$P.wt HEAD && mkdir -p /tmp/mut/$P.out && python3 /tmp/mut/mkprompt.py $P > /tmp/mut/$P.prompt && echo prepared $P
