#!/bin/bash
# usage: prep2.sh Cxx  -> round 2: worktree /tmp/mut/Cxx.r2.wt, out /tmp/mut/Cxx.r2.out, prompt /tmp/mut/Cxx.r2.prompt
P=$1
git -C /repo worktree remove --force /tmp/mut/$P.r2.wt >/dev/null 2>&1
rm -rf /tmp/mut/$P.r2.wt /tmp/mut/$P.r2.out
git -C /repo worktree add -q --detach /tmp/mut/$P.r2.wt HEAD && mkdir -p /tmp/mut/$P.r2.out && python3 /tmp/mut/mkprompt.py $P r2 > /tmp/mut/$P.r2.prompt && echo prepared $P r2
