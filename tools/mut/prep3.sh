#!/bin/bash
# usage: prep2.sh Cxx  -> round 2: worktree /tmp/mut/Cxx.r3.wt, out /tmp/mut/Cxx.r3.out, prompt /tmp/mut/Cxx.r3.prompt
P=$1
git -C /repo worktree remove --force /tmp/mut/$P.r3.wt >/dev/null 2>&1
rm -rf /tmp/mut/$P.r3.wt /tmp/mut/$P.r3.out
git -C /repo worktree add -q --detach /tmp/mut/$P.r3.wt HEAD && mkdir -p /tmp/mut/$P.r3.out && python3 /tmp/mut/mkprompt.py $P r3 > /tmp/mut/$P.r3.prompt && echo prepared $P r3
