#!/bin/bash
# usage: prep2.sh Cxx  -> round 2: worktree /tmp/mut/Cxx.r4.wt, out /tmp/mut/Cxx.r4.out, prompt /tmp/mut/Cxx.r4.prompt
P=$1
git -C /repo worktree remove --force /tmp/mut/$P.r4.wt >/dev/null 2>&1
rm -rf /tmp/mut/$P.r4.wt /tmp/mut/$P.r4.out
git -C /repo worktree add -q --detach /tmp/mut/$P.r4.wt HEAD && mkdir -p /tmp/mut/$P.r4.out && python3 /tmp/mut/mkprompt.py $P r4 > /tmp/mut/$P.r4.prompt && echo prepared $P r4
