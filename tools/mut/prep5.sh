#!/bin/bash
# usage: prep2.sh Cxx  -> round 2: worktree /tmp/mut/Cxx.r5.wt, out /tmp/mut/Cxx.r5.out, prompt /tmp/mut/Cxx.r5.prompt
P=$1
git -C /repo worktree remove --force /tmp/mut/$P.r5.wt >/dev/null 2>&1
rm -rf /tmp/mut/$P.r5.wt /tmp/mut/$P.r5.out
git -C /repo worktree add -q --detach /tmp/mut/$P.r5.wt HEAD && mkdir -p /tmp/mut/$P.r5.out && python3 /tmp/mut/mkprompt.py $P r5 > /tmp/mut/$P.r5.prompt && echo prepared $P r5
