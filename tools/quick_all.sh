#!/bin/bash
# Runs every quick check once against /repo (refreshes evidence/), prints one line per check.
cd /verif
for p in C01 C02 C03 C04 C05 C06 C07 C08 C09 C10 C11 C12 C13 C14 C15 C16 C17 C18 C19 C20 C21 C22 C23 C24 C25 C26 C27 C28 C29 C30 C31 C32 C33 C34; do
  ./check $p 2>&1 | grep -E "^VIOLATION|signature|^C[0-9]+ tier|INCONCLUSIVE|KNOWN" | cut -c1-220
done
