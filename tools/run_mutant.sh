#!/bin/bash
# usage: run_mutant.sh <patch> <check> [<check>...]
# Applies the patch in a scratch worktree of /repo (outside /repo and /verif), runs the quick checks
# against that worktree (VERIF_REPO), removes the worktree. /repo itself is not touched.
set -u
P=$(readlink -f $1); shift
WT=$(mktemp -d /tmp/rm.XXXXXX); rmdir $WT
git -C /repo worktree add -q --detach $WT HEAD || { echo "MUTANT $P worktree-failed"; exit 2; }
trap 'git -C /repo worktree remove --force $WT >/dev/null 2>&1' EXIT
if ! git -C $WT apply $P 2>/dev/null; then
  if ! git -C $WT apply --3way $P >/dev/null 2>&1; then echo "MUTANT $P does-not-apply"; exit 2; fi
fi
for c in "$@"; do
  L=/tmp/mutrun.$$.$c.log
  (cd /verif && VERIF_REPO=$WT ./check $c ${TIER:+--tier $TIER} > $L 2>&1); rc=$?
  echo "MUTANT $(basename $(dirname $P))/$(basename $P) check=$c exit=$rc $(grep -c '^VIOLATION' $L) violations; first: $(grep -m1 'signature:' $L)"
  rm -f $L
done
