#!/bin/bash
# usage: run_mutant.sh <patch> <check> [<check>...]   - applies the patch to /repo, runs the quick checks, reverts.
set -u
P=$1; shift
cd /repo
if ! git apply --check $P 2>/dev/null; then
  if ! git apply --3way $P >/dev/null 2>&1; then echo "MUTANT $P does-not-apply"; git checkout -- . ; git reset -q; exit 2; fi
  git reset -q
else
  git apply $P
fi
for c in "$@"; do
  cd /verif && ./check $c > /tmp/mutrun.$$.log 2>&1; rc=$?
  echo "MUTANT $(basename $(dirname $P))/$(basename $P) check=$c exit=$rc $(grep -c '^VIOLATION' /tmp/mutrun.$$.log) violations; first: $(grep -m1 'signature:' /tmp/mutrun.$$.log)"
done
rm -f /tmp/mutrun.$$.log
git -C /repo checkout -- . ; git -C /repo status --short
