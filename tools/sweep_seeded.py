#!/usr/bin/env python3
"""Re-runs every kept seeded change against the current /repo HEAD (in scratch worktrees, /repo untouched)
and writes seeded/SWEEP.md: does the patch still apply, which of its checks report a violation."""
import json, glob, os, subprocess, sys, time
rows = []
head = subprocess.run(["git", "-C", "/repo", "log", "-1", "--format=%h"], stdout=subprocess.PIPE, text=True).stdout.strip()
only = sys.argv[1:]
for mp in sorted(glob.glob("/verif/seeded/*/meta.json")):
    m = json.load(open(mp))
    sid = m["id"]
    if only and sid not in only and m["property"] not in only:
        continue
    if m.get("superseded"):
        rows.append((sid, m["property"], "not run: " + m["superseded"]))
        continue
    patch = os.path.join(os.path.dirname(mp), "patch.diff")
    checks = m.get("detected_by") or [m["property"]]
    p = subprocess.run(["/verif/tools/run_mutant.sh", patch] + checks[:1], stdout=subprocess.PIPE, stderr=subprocess.STDOUT, text=True)
    out = p.stdout.strip().splitlines()
    res = "?"
    for l in out:
        if "does-not-apply" in l:
            res = "patch no longer applies to HEAD (the code it changes was rewritten by a later fix)"
        elif l.startswith("MUTANT") and "exit=" in l:
            ex = l.split("exit=")[1].split()[0]
            res = {"1": "VIOLATION reported", "0": "NOT detected", "2": "inconclusive"}.get(ex, ex) + " by " + l.split("check=")[1].split()[0]
            if "signature:" in l:
                res += " (" + l.split("signature:")[1].strip()[:80] + ")"
    rows.append((sid, m["property"], res))
    print(sid, res, flush=True)
if only and os.path.exists("/verif/seeded/SWEEP.md"):
    # partial re-run: keep the other rows of the previous sweep
    prev = {}
    for l in open("/verif/seeded/SWEEP.md"):
        p = [x.strip() for x in l.strip().strip("|").split("|", 2)]
        if len(p) == 3 and p[0] not in ("id", "---"):
            prev[p[0]] = (p[0], p[1], p[2])
    for r in rows:
        prev[r[0]] = r
    rows = [prev[k] for k in sorted(prev)]
with open("/verif/seeded/SWEEP.md", "w") as f:
    f.write("# Seeded changes re-run against /repo HEAD %s (%s)\n\n| id | property | result of the quick check |\n|---|---|---|\n" % (head, time.strftime("%Y-%m-%d %H:%M")))
    for r in rows:
        f.write("| %s | %s | %s |\n" % r)
