#!/bin/bash
# usage: verify_mutant.sh <agent-out-dir> <A|B> <base-commit>
# Confirms in a scratch worktree: patch applies, builds, full suite passes with it,
# demo fails with it and passes without it. Prints one RESULT line.
set -u
OUT=$1; X=$2; BASE=${3:-HEAD}
export GOFLAGS=-mod=mod GOPROXY=off GOSUMDB=off GOTOOLCHAIN=local
WT=$(mktemp -d /tmp/mv.XXXXXX); rmdir $WT
git -C /repo worktree add -q --detach $WT $BASE || { echo "RESULT $OUT $X worktree-failed"; exit 1; }
trap 'git -C /repo worktree remove --force $WT >/dev/null 2>&1' EXIT
cd $WT
META=$OUT/$X.meta.json
DEMO_PATH=$(python3 -c "import json;print(json.load(open('$META'))['demo_path'])")
DEMO_CMD=$(python3 -c "import json;print(json.load(open('$META'))['demo_cmd'])")
git apply $OUT/$X.patch.diff || { echo "RESULT $OUT $X patch-does-not-apply"; exit 1; }
go build ./... || { echo "RESULT $OUT $X build-fails"; exit 1; }
SUITE=pass
go test -count=1 ./... > $WT/suite.log 2>&1 || SUITE=fail
if [ -d "$OUT/$X.demo" ]; then cp -r $OUT/$X.demo $WT/$DEMO_PATH; else mkdir -p $(dirname $DEMO_PATH); cp $OUT/$X.demo_test.go $DEMO_PATH; fi
WITH=pass; bash -c "$DEMO_CMD" > $WT/demo_with.log 2>&1 || WITH=fail
git apply -R $OUT/$X.patch.diff
WITHOUT=pass; bash -c "$DEMO_CMD" > $WT/demo_without.log 2>&1 || WITHOUT=fail
echo "RESULT $OUT $X suite=$SUITE demo_with_patch=$WITH demo_without_patch=$WITHOUT"
if [ $SUITE = fail ]; then grep -a -E "^--- FAIL|^FAIL" $WT/suite.log | head -5; fi
